#!/usr/bin/env python3
"""Regenerates /verif/MANIFEST.json from the table below (single source of truth)."""
import json, subprocess

BASELINE_OFF = ("cd /repo && cargo nextest run --workspace --no-fail-fast --test-threads 8 --offline "
                "|| cargo test --workspace --no-fail-fast --offline")

# id -> dict(engine, technique, text, note, design_ref)
CHECKS = {
 "C02": dict(engine="booked", design="§5 C02",
   technique="explicit-state BFS to fix-point over bookkeeping states through the real insert_db/commit_snapshot/from_conn, plus replay-BFS over a real node (process_multiple_changes, apply, clear) against an event-based set model",
   text="(a) every reachable (needed, head, gap rows) state for a universe of 8 (thorough 11) versions x every non-empty version set as an insertion, on a real connection, to fix-point: head, needed set, gap rows (disjoint, non-adjacent, in range), contains_version and reload equality checked on every transition. (b) a real node receiving complete / every seq sub-range chunk / every empty range / batches of two for 2 (thorough 3) versions of 3 seqs, with apply and clear steps: after every step the advertised sync state must split 1..=head exactly (held => delivered complete or covered; partial => exactly the undelivered seqs and not applied; needed => nothing stored), persisted gap/seq rows must equal memory, stale rows must have a clear scheduled, and BookedVersions::from_conn must agree with the live view.",
   note="(b) is bounded by depth (quick: depth 2 complete, depth 3 until a 35 s wall cap; the cap and frontier left are in the evidence). Versions are 3-cell inserts on distinct keys. A fully buffered, not yet applied version may be advertised as held (it is durably stored)."),
 "C04": dict(engine="pure", design="§5 C04",
   technique="exhaustive small-scope enumeration of all pairs of well-formed sync states through the real compute_available_needs, against an independent set model",
   text="Every pair (ours, theirs) of well-formed SyncStateV1 values for one origin actor up to V versions x S seqs (quick: V<=4/S=0, V<=4/S<=1, V<=3/S<=2; thorough: up to V<=6), plus two origin actors and the node's own actor id on both sides, is pushed through the real function; completeness, head bound and not-own-versions are checked by a bitmask set model. Exhaustive within those bounds, so any off-by-one or dropped subtraction in the range arithmetic shows as a concrete pair.",
   note="Trusts the generator's notion of well-formed state (shape emitted by generate_sync). Larger version universes and >2 origin actors are outside the bound; actors are independent in the code by construction."),
 "C08": dict(engine="pure", design="§5 C08",
   technique="exhaustive enumeration of change lists x size limits x limit-change schedules through the real ChunkedChanges iterator and chunk_range",
   text="All start in 0..=2, spans up to 6 (thorough 8), every subset of [start,last] as present seqs, small/large size per change, 8 limits incl. 0, limit changed after each of the first 2 (thorough 3) chunks to any limit; tiling, containment, order and termination are asserted on every produced chunk list; chunk_range for all lo<=hi<=30 (60) x chunk 1..=12.",
   note="Sizes are two representative byte sizes; the iterator only compares the running sum with the limit. chunk size 0 for chunk_range is excluded (panics in std step_by; the only call site passes 10)."),
 "C18": dict(engine="members", design="§5 C18",
   technique="explicit-state BFS (stateright) whose transition function calls the real Members::{add_member,remove_member,add_rtt}; invariants from a fold-by-newest reference model evaluated in every reachable state",
   text="All reachable states of the member table for 2 actors (3 and 2 identity timestamps), every assignment of address/cluster to identities (64 tables quick, 256 thorough), up/down notifications in any admissible order, RTT samples {1,(40),1000} ms for current and former addresses; presence, identity (ts/address/cluster) and ring/ring0 invariants in every state; shortest counterexample re-derived by FIFO search. 3.4e5 states quick, 3.0e7 thorough, to fix-point.",
   note="Alphabet assumptions: an identity (actor, ts) has one fixed address and cluster; distinct actors never share an address; a 'down' is only emitted for an identity announced 'up' before; an 'up' never carries an identity older than one reported down. foca itself is trusted."),
}

NOT_YET = {
}

ALL = ["C%02d" % i for i in range(1, 21)]

def main():
    checks = []
    for pid in ALL:
        if pid not in CHECKS:
            continue
        c = CHECKS[pid]
        checks.append({
            "property_id": pid,
            "quick_cmd": f"bin/check {pid} --tier quick",
            "thorough_cmd": f"bin/check {pid} --tier thorough",
            "evidence_file": f"/verif/evidence/{pid}.json",
            "replay_cmd_template": f"bin/check {pid} --replay {{path}}",
            "engine": c["engine"],
            "level_claimed": {"category": "model_checking", "text": c["text"], "design_ref": c["design"]},
            "level_note": c["note"],
            "technique": c["technique"],
        })
    na = []
    for pid in ALL:
        if pid not in CHECKS:
            na.append({"property_id": pid, "reason": NOT_YET.get(pid, "check not built yet in this session (planned in DESIGN.md §5); not claimed until its engine exists and passes on the unchanged tree")})
    hooks_commits = subprocess.run(["git", "-C", "/repo", "log", "--format=%H %s"], capture_output=True, text=True).stdout.splitlines()
    hook_shas = [l.split()[0] for l in hooks_commits if " verif hooks" in l or "verif hook" in l]
    m = {
        "version": 1,
        "setup_cmd": "cd /verif/harness && CARGO_NET_OFFLINE=true cargo build",
        "hooks": {
            "guard": "cargo feature `verif` on klukai-types and klukai-agent (off by default)",
            "enable": "the harness crate /verif/harness depends on /repo/crates/klukai-{types,agent} by path with features=[\"verif\"]; bin/check runs `cargo build` there before every check, so edits under /repo are picked up",
            "baseline_off_cmd": BASELINE_OFF,
            "source_commits": hook_shas,
            "add_only": True,
        },
        "engines": [
            {"name": "booked", "path": "harness/src/bin/booked.rs", "serves_properties": ["C02"], "kind_free_text": "BFS to fix-point over real bookkeeping + replay-BFS over a real node"},
            {"name": "members", "path": "harness/src/bin/members.rs", "serves_properties": ["C18"], "kind_free_text": "stateright BFS over the real Members methods"},
            {"name": "pure", "path": "harness/src/bin/pure.rs", "serves_properties": ["C04", "C08"], "kind_free_text": "exhaustive small-scope enumeration of pure functions against set models"},
        ],
        "checks": checks,
        "not_applicable": na,
        "notes": "All checks: exit 0 held / 1 VIOLATION / 2 machinery error. known_findings.json lists recorded defects. See DESIGN.md.",
    }
    json.dump(m, open("/verif/MANIFEST.json", "w"), indent=1)
    print("wrote MANIFEST.json with", len(checks), "checks;", len(na), "not_applicable")

main()

#!/usr/bin/env python3
"""Regenerates /verif/MANIFEST.json from the table below (single source of truth)."""
import json, subprocess

BASELINE_OFF = ("cd /repo && cargo nextest run --workspace --no-fail-fast --tool-config-file pb:/w/lib/nextest.toml --profile pb --test-threads 8 --offline "
                "|| cargo test --workspace --no-fail-fast --offline")

# id -> dict(engine, technique, text, note, design_ref)
CHECKS = {
 "C01": dict(engine="repl", design="§4, §5 C01",
   technique="explicit-state replay-BFS over 2-3 real nodes (every transition executed by the real write/apply/sync functions), safety invariant in every state and fair-closure convergence oracle from every state, against a reference merge computed by a fresh real node",
   text="For each write script (conflicting writers, overwrites, relay overwriting a received cell; thorough adds deletes/re-inserts and 3-node variants) every dissemination history to fix-point or cap: delivery of any seq sub-range of any version to any receiver, batches, lossy sync sessions (any single answer dropped, any prefix kept), apply and clear steps. In every state nothing exposed through crsql_changes is outside the acknowledged transactions; from every state the fair closure (lossless syncs between all ordered pairs + apply/clear until nothing changes) must end with identical tables and cell versions equal to the reference merge, empty need/partial_need and full heads.",
   note="QUIC transport, handle_changes queueing and parallel_sync's client-side request de-duplication are bypassed (requests are compute_available_needs' output served by the real process_sync/handle_need). cr-sqlite's merge is trusted. Bounds: <=3 nodes, <=3 versions, <=2 keys; depth to fix-point where reached, caps recorded in evidence."),
 "C02": dict(engine="booked", design="§5 C02",
   technique="explicit-state BFS to fix-point over bookkeeping states through the real insert_db/commit_snapshot/from_conn, plus replay-BFS over a real node (process_multiple_changes, apply, clear) against an event-based set model",
   text="(a) every reachable (needed, head, gap rows) state for a universe of 8 (thorough 11) versions x every non-empty version set as an insertion, on a real connection, to fix-point: head, needed set, gap rows (disjoint, non-adjacent, in range), contains_version and reload equality checked on every transition. (b) a real node receiving complete / every seq sub-range chunk / every empty range / batches of two for 2 (thorough 3) versions of 3 seqs, with apply and clear steps: after every step the advertised sync state must split 1..=head exactly (held => delivered complete or covered; partial => exactly the undelivered seqs and not applied; needed => nothing stored), persisted gap/seq rows must equal memory, stale rows must have a clear scheduled, and BookedVersions::from_conn must agree with the live view.",
   note="(b) is bounded by depth (quick: depth 2 complete, depth 3 until a 35 s wall cap; the cap and frontier left are in the evidence). Versions are 3-cell inserts on distinct keys. A fully buffered, not yet applied version may be advertised as held (it is durably stored)."),
 "C03": dict(engine="repl", design="§4, §5 C03",
   technique="explicit-state replay-BFS over a real receiver: every cut/overlap/order/batching of a version's seq range, with visibility invariants in every state and a differential twin (same history, version delivered unchunked) after every apply",
   text="Versions of 2 and 4 seqs (and versions partly or wholly overwritten later) delivered to a real node as every contiguous sub-range in every order, batches of two (adjacent, reversed, overlapping, mixed versions), to fix-point: no change stamped with the version is visible before the union of received ranges covers it; an apply trigger is pending iff coverage just completed; after the apply step the node's tables and crsql_changes equal those of the twin history in which the version arrives as one complete changeset; after the fair closure every partial is applied or discarded and no buffered/seq rows remain.",
   note="Twin comparison is skipped (and counted) when a partial chunk came from a sync answer. Suppliers other than the origin enter through sync sessions in the 3-node families (thorough)."),
 "C04": dict(engine="pure", design="§5 C04",
   technique="exhaustive small-scope enumeration of all pairs of well-formed sync states through the real compute_available_needs, against an independent set model",
   text="Every pair (ours, theirs) of well-formed SyncStateV1 values for one origin actor up to V versions x S seqs (quick: V<=4/S=0, V<=4/S<=1, V<=3/S<=2; thorough: up to V<=6), plus two origin actors and the node's own actor id on both sides, is pushed through the real function; completeness, head bound and not-own-versions are checked by a bitmask set model. Exhaustive within those bounds, so any off-by-one or dropped subtraction in the range arithmetic shows as a concrete pair.",
   note="Trusts the generator's notion of well-formed state (shape emitted by generate_sync). Larger version universes and >2 origin actors are outside the bound; actors are independent in the code by construction."),
 "C05": dict(engine="repl", design="§4, §5 C05",
   technique="explicit-state replay-BFS to fix-point over server database states; in every distinct state every full and partial need within the advertised heads is served by the real process_sync/handle_need and judged against the server's own tables and advertised state",
   text="Server states: every reachable mix of applied, overwritten, wholly-dead, deleted, partially buffered, fully-buffered-unapplied and missing versions for scripts of 2-3 versions; requests: every Full{lo..=hi} and every Partial{v,[i..=j]} (plus a two-range partial) with v <= head. Per requested version: live rows => changesets agree on last_seq, tile the request and carry exactly the live rows; held without live rows => declared empty and nothing else; buffered => exactly stored ranges ∩ request with the buffered rows; needed => silence; never an Empty over a needed/partial version; every change inside its changeset's range. Case-class hit counts are in the evidence.",
   note="Requests above the advertised head are outside the statement. The wire tier (scripted QUIC client) is not built; handle_need is reached through the real process_sync filter in-process."),
 "C06": dict(engine="repl", design="§4, §5 C06",
   technique="explicit-state replay-BFS with a crash-restart event enabled after every committed step of every node (runtime and memory dropped, node reopened on its files), one-sided recovery oracle plus convergence closure",
   text="Every history of local writes, complete/partial deliveries, apply and clear steps to fix-point, with a crash of any node placed after any step (each step performs at most one commit; the window between a commit and the in-memory update is the same disk state with memory discarded). After restart: every acknowledged local version is known, the rebuilt sync state claims as held only versions that were delivered complete or covered (and advertises at least the truly missing seqs of partials), fully buffered versions are re-scheduled and applied, and the fair closure still converges to the reference merge.",
   note="Restart uses the harness's socket-free open, which repeats run_root's bookkeeping load (same SQL, BookedVersions::from_conn, re-trigger rule); validation of that against the real start_with_config is listed in DESIGN.md as not yet bound. Torn pages / fsync ordering are outside the statement."),
 "C07": dict(engine="localtx", design="§5 C07",
   technique="exhaustive enumeration of request sequences through the real api_v1_transactions against a reference model (row map + version counter), including chunk-boundary sweeps of large transactions",
   text="Every sequence of <= 2 (thorough 3) requests over 17 statement lists (inserts, multi-row, updates, no-op updates, deletes, deletes of missing rows, three-statement lists failing at statement 1/2/3 by syntax error or key violation, wrong parameter count, NOT NULL violation, state-dependent failure, empty list), plus single-statement transactions of n rows for every n in windows crossing the 8 KiB chunk boundary (and 0, 1, 400/3000) and a 1 s timeout case: after every request the status, the returned version (previous+1, or none for failures and no-ops), the table contents, crsql_db_version, the advertised own head, absence of gaps for the own actor, and the announced changesets (tile 0..=last_seq, exactly the version's changes, none for failed/no-op requests) are compared with the model.",
   note="Sequential requests only; concurrent requests are serialised by the write pool, whose exclusion/priority is C20's check. The interleaving of the post-commit broadcast task with a following transaction is not explored (listed in DESIGN.md)."),
 "C08": dict(engine="pure", design="§5 C08",
   technique="exhaustive enumeration of change lists x size limits x limit-change schedules through the real ChunkedChanges iterator and chunk_range",
   text="All start in 0..=2, spans up to 6 (thorough 8), every subset of [start,last] as present seqs, small/large size per change, 8 limits incl. 0, limit changed after each of the first 2 (thorough 3) chunks to any limit; tiling, containment, order and termination are asserted on every produced chunk list; chunk_range for all lo<=hi<=30 (60) x chunk 1..=12.",
   note="Sizes are two representative byte sizes; the iterator only compares the running sum with the limit. chunk size 0 for chunk_range is excluded (panics in std step_by; the only call site passes 10)."),
 "C09": dict(engine="codec", design="§5 C09",
   technique="exhaustive bounded input enumeration of the real decoders in crash-isolated child processes with a counting allocator; grammar-generated round trips; byte-level differential against the extension's crsql_pack_columns",
   text="Every byte string of length <= 2 (thorough 3) and, for ~150 seed frames generated from a grammar of all message/changeset/need/value variants, every truncation, every single-byte substitution and every 1/4/8-byte window overwritten with 8 boundary values in both endiannesses (thorough: pairs of positions too), through UniPayload/BiPayload/SyncMessage decoding and unpack_columns: outcome must be Ok or Err (no panic, no abort), peak and largest allocation <= 64 KiB + 256 x input length, every decoded text valid UTF-8 and every decoded value re-encodable. Round trip for every seed; pack_columns == crsql_pack_columns byte for byte and unpack(pack(x)) == x for all 1-2 (thorough 3) column tuples from a pool of extreme values plus 255 columns.",
   note="The 100 MiB frame space is covered only in these neighbourhoods. NaN is excluded from the extension differential (SQLite binds NaN as NULL). Harness built with release semantics (no overflow checks / debug assertions), as deployed."),
 "C10": dict(engine="ingest", design="§5 C10",
   technique="exhaustive enumeration of arrival sequences through the real handle_changes loop on a real node, with a deterministic overload (write connection held, five fillers occupy the processing slots), followed by bounded re-offer rounds",
   text="Every arrival sequence of length <= 3 (thorough 4) over 8 colliding changesets of two actors (complete versions, two chunks of one version, a chunk of the other actor, an empty) for processing_queue_len 1..2 (thorough 1..3, apply_queue_len 1..2, and the database released before the last arrival): after the overload every offered changeset is either held and really stored, or not claimed; after at most three re-offer rounds with the database idle every changeset is held. The number of cases in which something was shed is the vacuity guard.",
   note="The 10 ms flush tick is disabled (apply_queue_timeout = 1 h) so that batching, queueing and dropping are decided by the loop's own rules; a 20 ms start-up wait lets the interval's immediate first tick pass before the first offer. More than 5 concurrent batches interacting with timers at real speed are outside."),
 "C11": dict(engine="subs", design="§5 C11",
   technique="exhaustive query x history enumeration on a real node with real matchers: after every transaction every subscription's materialised rows and replayed event stream are compared with the query re-evaluated on the node database",
   text="12 queries (projection, expression, WHERE on value / nullable, INNER and LEFT joins, LEFT JOIN with IS NULL filter, alias, composite key, join on composite key, SELECT *, two LEFT JOINs) subscribed at once; every history of 2 (thorough 3) transactions over 16 operations on keys {1,2} of three tables (upserts, updates, set-to-NULL, deletes, re-parenting, orphaning, delete+re-insert in one transaction, two-table transaction), applied locally; after each step: rows of the subscription database == the query on the node database (multisets), replaying snapshot + insert/update/delete events by row id gives the same, change ids consecutive, no event when the key-extended result did not change.",
   note="Known finding listed in known_findings.json (LEFT JOIN, change on the nullable side only); a subscription hit by it is not judged again in that history. Quiescence uses a 1000-key barrier batch through the subscription's own channel plus the matcher.batch_done emit hook. Remote application (process_multiple_changes / buffered apply -> match_changes_from_db_version) is not enumerated yet."),
 "C13": dict(engine="subs", design="§5 C13",
   technique="exhaustive enumeration of stop points of a subscription's life on a real node (every commit boundary of its database log for abrupt stops; trip positions, late transactions and trip-during-batch for graceful stops), each followed by a restart through the real setup()",
   text="Two queries (single table, inner join); 0..2 (thorough 0..4) processed batches before the stop. Abrupt: the subscription database cut after every commit frame of its WAL (creation, running marker, both commits of each batch), paired with the node database at the end of the run. Graceful: tripwire tripped before/between/after batches, with 0..2 transactions arriving after the trip and before the handles are dropped, and with the trip landing while a batch is parked before its commit (scheduling-point hook). After restart through setup(): a state other than 'completed' => directory removed and id unknown; 'completed' => same id restored, materialised rows == the query on the node database, change log not shorter than the events delivered (and exactly ending with the last one when nothing arrived late), the first new event has the next id; a graceful shutdown must end 'completed' and the matcher must finish.",
   note="A transaction whose broadcast task runs only after the handles were dropped (a real but narrow race between spawn_counted(broadcast_changes) and drop_handles) is not explored; late transactions are handed to the matcher before the handles are dropped."),
 "C14": dict(engine="subs", design="§5 C14",
   technique="exhaustive enumeration of write sequences x arrival orders x batchings through the real update feed (UpdatesManager / batch_candidates) on a real node, with the last-notification oracle evaluated at every quiescent point",
   text="Every sequence of 3 (thorough 4) operations {insert/update/delete key 1, insert/delete key 2} starting with an insert, observed (a) on the writing node and (b) on a second node that receives the resulting versions in every arrival order, each alone and all in one batch (thorough: every batching), through process_multiple_changes and the buffered-apply path; plus cold-feed cases that leave the 600 ms aggregation window in place. At every quiescent point: every key whose row changed has a notification, and the last notification for a key says 'delete' exactly when the row is absent.",
   note="Quiescent points are closed by a sentinel row written on the observing node (FIFO feed). The cache-trimming path (>2000 keys) is not reached."),
 "C15": dict(engine="schema", design="§5 C15",
   technique="exhaustive enumeration of schema-submission sequences through the real api_v1_db_schema on a database holding rows, metamorphic invariants after every submission and a restart through the real setup() after every sequence",
   text="23 submissions (new table, added nullable / NOT NULL-with-default columns, index added / changed / dropped, resubmission, and forbidden edits: NOT NULL without default, explicit DROP TABLE, dropped column, changed type / default / nullability, changed or added primary key, UNIQUE index, foreign key, syntax error at statement 1/2/3, valid+invalid table pairs in both orders); every sequence of <= 2 (thorough 3) starting with any single submission or an allowed one. Accepted => tables/columns/rows/values only grow, existing column definitions unchanged, replicated data and db_version untouched, resubmission succeeds and changes nothing. Rejected => sqlite_schema, __corro_schema, table contents, crsql_changes and agent.schema() identical to before. Always-forbidden edits are rejected in every state; additive edits are accepted on the base schema; after restart agent.schema() equals the pre-restart value (column order included).",
   note="A crash inside the apply transaction is SQLite's own atomicity and is not enumerated. Two base tables, one with an index and rows."),
 "C16": dict(engine="edge", design="§5 C16",
   technique="exhaustive configuration grid on full agents (start_with_config) over loopback QUIC: receiver cluster id x declared id x path x frame order, a run-time change of the cluster id with pre- and post-switch connections, and membership tables mixing clusters observed through harness-owned QUIC listeners",
   text="Receiver id in {0,1,2} (persisted before start) x sender-declared id in {absent (frame ends early, defaults to 0), 0, 1, 2} on the broadcast path with a foreign and a native frame in the same stream in both orders (the native one proves the stream was processed): a change is applied iff the effective declared id equals the receiver's. Sync served: SyncStart declaring 0/1/2 - first message is Rejection(DifferentCluster) and nothing follows when the ids differ, State when equal. Run-time switch 1 -> 2 through Agent::set_cluster_id with frames on a connection opened before and on one opened after the switch, and sync probes after it. Membership: every assignment (quick: 4 of 8) of 3 peers (two in ring 0) to {own, other} cluster whose addresses are harness QUIC listeners; after a local write and one handle_sync call only same-cluster listeners saw a connection, stream or datagram.",
   note="foca's own SWIM datagrams and TLS mode are not exercised. Negative observations on the pre-switch connection rely on a 700 ms wait (conservative: can miss, cannot raise a false alarm)."),
 "C17": dict(engine="edge", design="§5 C17",
   technique="exhaustive configuration grid on a live listener running the real router and middleware: routes x methods x Authorization-header shapes x {token configured, not}, and a statement grammar against the read endpoints, with a full state digest after every request",
   text="7 routes x {GET, POST, PUT, DELETE} (+ an unknown path) x 14 Authorization shapes (none, Basic, wrong, prefix, suffix, other case, empty, empty header, two wrong headers, token without scheme, token in another header, lowercase scheme, wrong+exact, exact) x {token configured, not configured}, sent as hand-written HTTP/1.1 over TCP: without the exact token every request gets a 4xx and the database, bookkeeping, schema, version counter and subscription directory are unchanged; with no token configured nothing answers 401; the exact token is never answered 401. Then 26 writing statements (DML, DDL, PRAGMA writes, ATTACH, VACUUM [INTO], BEGIN, side-effecting crsql_* functions in a SELECT list, writes to crsql/bookkeeping tables) x 9 wrappers (plain, before/after a SELECT, trailing comment, EXPLAIN, CTE, RETURNING, sub-select, parameterised) to /v1/queries and /v1/subscriptions: digests unchanged whatever the status.",
   note="State is read through a fresh connection (a statement such as SELECT crsql_finalize() can disable the pooled read connection it ran on without touching the database; noted in DESIGN.md, not judged). Statements outside the grammar and HTTP/2 are not covered."),
 "C18": dict(engine="members", design="§5 C18",
   technique="explicit-state BFS (stateright) whose transition function calls the real Members::{add_member,remove_member,add_rtt}; invariants from a fold-by-newest reference model evaluated in every reachable state",
   text="All reachable states of the member table for 2 actors (3 and 2 identity timestamps), every assignment of address/cluster to identities (64 tables quick, 256 thorough), up/down notifications in any admissible order, RTT samples {1,(40),1000} ms for current and former addresses; presence, identity (ts/address/cluster) and ring/ring0 invariants in every state; shortest counterexample re-derived by FIFO search. 3.4e5 states quick, 3.0e7 thorough, to fix-point.",
   note="Alphabet assumptions: an identity (actor, ts) has one fixed address and cluster; distinct actors never share an address; a 'down' is only emitted for an identity announced 'up' before; an 'up' never carries an identity older than one reported down. foca itself is trusted."),
 "C19": dict(engine="backup", design="§5 C19 (part A)",
   technique="exhaustive grid over source databases x destinations x restore flags through the built corrosion binary's backup and restore commands, compared cell by cell with the source and served through a real node afterwards",
   text="Sources: own changes only / own + two other actors with conflicting cells, deletions and overwritten versions (thorough: also switched to a rollback journal), with membership rows present. Destinations: absent, empty file, existing smaller database, existing larger database, WAL with un-checkpointed frames, each with a subscriptions directory. Flags: none, --self-actor-id, --actor-id known to the backup, --actor-id unknown. After `corrosion backup` + `corrosion restore`: replicated rows equal the source's, clock tables joined with crsql_site_id (authorship by actor, independent of ordinals) equal the source's, no membership rows, subscriptions directory gone, ordinal 0 is the expected actor (and never the source's when no flag is given), the backup left the source untouched; a node opened on the result has the expected actor id and serves every author's versions attributed to that author.",
   note="Part B of the statement (a reader in another process during a live restore sees entirely old or entirely new content) is NOT covered by an exhaustive check yet (system-call gated interleaving search planned in DESIGN.md §5 C19-B). MANIFEST setup_cmd builds the corrosion binary."),
 "C20": dict(engine="locks", design="§5 C20 (part A)",
   technique="stateless DFS over all harness-visible schedules of the real SplitPool (hand-polled requester futures with flag wakers on a current-thread runtime with paused time), deviation-bounded deferral of the dispatcher, every schedule run to completion",
   text="2-3 (thorough up to 4) concurrent write_priority/normal/low requests; actions: poll a woken requester, cancel a waiting requester (while queued or already granted but not yet polled), release a holder; each action either lets the dispatcher task run afterwards or defers it (<= 1, thorough 2 deferrals). On every schedule: never two WriteConn alive; at every release the next grant goes to a request of the highest priority among those queued at the release; every non-cancelled request is granted (a state with waiters, no holder and nobody woken is a deadlock); the schedule terminates.",
   note="Only the pool itself (mutual exclusion, priority, liveness of the hand-off) is covered. The agent-wide clause (no combination of write connection, write permit and per-actor bookkeeping locks blocks forever across local writes, remote applies, buffered applies, sync-state generation, maintenance) is NOT covered by an exhaustive check yet; see DESIGN.md §5 C20 part B. Interleavings inside tokio's primitives are not explored."),
}

NOT_YET = {
}

ALL = ["C%02d" % i for i in range(1, 21)]

def main():
    checks = []
    for pid in ALL:
        if pid not in CHECKS:
            continue
        c = CHECKS[pid]
        checks.append({
            "property_id": pid,
            "quick_cmd": f"bin/check {pid} --tier quick",
            "thorough_cmd": f"bin/check {pid} --tier thorough",
            "evidence_file": f"/verif/evidence/{pid}.json",
            "replay_cmd_template": f"bin/check {pid} --replay {{path}}",
            "engine": c["engine"],
            "level_claimed": {"category": "model_checking", "text": c["text"], "design_ref": c["design"]},
            "level_note": c["note"],
            "technique": c["technique"],
        })
    na = []
    for pid in ALL:
        if pid not in CHECKS:
            na.append({"property_id": pid, "reason": NOT_YET.get(pid, "check not built yet in this session (planned in DESIGN.md §5); not claimed until its engine exists and passes on the unchanged tree")})
    hooks_commits = subprocess.run(["git", "-C", "/repo", "log", "--format=%H %s"], capture_output=True, text=True).stdout.splitlines()
    hook_shas = [l.split()[0] for l in hooks_commits if " verif hooks" in l or "verif hook" in l]
    m = {
        "version": 1,
        "setup_cmd": "cd /verif/harness && CARGO_NET_OFFLINE=true cargo build && cd /repo && CARGO_NET_OFFLINE=true cargo build -p klukai --bin corrosion --offline",
        "hooks": {
            "guard": "cargo feature `verif` on klukai-types and klukai-agent (off by default)",
            "enable": "the harness crate /verif/harness depends on /repo/crates/klukai-{types,agent} by path with features=[\"verif\"]; bin/check runs `cargo build` there before every check, so edits under /repo are picked up",
            "baseline_off_cmd": BASELINE_OFF,
            "source_commits": hook_shas,
            "add_only": True,
        },
        "engines": [
            {"name": "backup", "path": "harness/src/bin/backup.rs", "serves_properties": ["C19"], "kind_free_text": "grid over the corrosion binary's backup/restore commands"},
            {"name": "booked", "path": "harness/src/bin/booked.rs", "serves_properties": ["C02"], "kind_free_text": "BFS to fix-point over real bookkeeping + replay-BFS over a real node"},
            {"name": "codec", "path": "harness/src/bin/codec.rs", "serves_properties": ["C09"], "kind_free_text": "exhaustive bounded input enumeration in child processes"},
            {"name": "ingest", "path": "harness/src/bin/ingest.rs", "serves_properties": ["C10"], "kind_free_text": "exhaustive arrival sequences through the real handle_changes loop"},
            {"name": "localtx", "path": "harness/src/bin/localtx.rs", "serves_properties": ["C07"], "kind_free_text": "request-sequence enumeration against a reference model"},
            {"name": "locks", "path": "harness/src/bin/locks.rs", "serves_properties": ["C20"], "kind_free_text": "stateless DFS over hand-polled SplitPool requesters"},
            {"name": "subs", "path": "harness/src/bin/subs.rs", "serves_properties": ["C11", "C13", "C14"], "kind_free_text": "query x history enumeration with real matchers / update feeds"},
            {"name": "schema", "path": "harness/src/bin/schema.rs", "serves_properties": ["C15"], "kind_free_text": "schema-submission sequence enumeration with metamorphic invariants"},
            {"name": "edge", "path": "harness/src/bin/edge.rs", "serves_properties": ["C16", "C17"], "kind_free_text": "configuration grids on live listeners / full agents"},
            {"name": "members", "path": "harness/src/bin/members.rs", "serves_properties": ["C18"], "kind_free_text": "stateright BFS over the real Members methods"},
            {"name": "repl", "path": "harness/src/bin/repl.rs", "serves_properties": ["C01", "C03", "C05", "C06"], "kind_free_text": "replay-from-history explicit-state BFS over 2-3 real nodes"},
            {"name": "pure", "path": "harness/src/bin/pure.rs", "serves_properties": ["C04", "C08"], "kind_free_text": "exhaustive small-scope enumeration of pure functions against set models"},
        ],
        "checks": checks,
        "not_applicable": na,
        "notes": "All checks: exit 0 held / 1 VIOLATION / 2 machinery error. known_findings.json lists recorded defects. See DESIGN.md.",
    }
    json.dump(m, open("/verif/MANIFEST.json", "w"), indent=1)
    print("wrote MANIFEST.json with", len(checks), "checks;", len(na), "not_applicable")

main()

//! Replay-from-history explicit-state BFS: a state is the event history reaching it; a successor
//! is produced by re-executing history+event on fresh real objects (live objects and database
//! files do not clone). Deduplication on a canonical digest computed by the caller.

use crate::vcore::*;
use serde::Serialize;
use serde_json::{Value, json};
use std::collections::HashSet;
use std::time::Instant;

pub struct Outcome<E> {
    /// canonical digest of the state reached
    pub digest: u64,
    /// events enabled in the state reached
    pub enabled: Vec<E>,
    /// violations observed in the state reached / by the last step: (key, details)
    pub violations: Vec<(String, Value)>,
    /// digest of the observable outcome (vacuity statistics)
    pub outcome: u64,
    /// is this state non-trivial by the engine's rule
    pub nontrivial: bool,
}

#[derive(Debug, Default, Clone)]
pub struct BfsStats {
    pub states: u64,
    pub transitions: u64,
    pub depth_completed: usize,
    pub capped: Option<String>,
    pub frontier_left: usize,
}

pub struct Limits {
    pub max_depth: usize,
    pub max_execs: u64,
    pub deadline: Option<Instant>,
}

/// BFS from `roots` (each root is a history). `run` must be deterministic.
pub fn replay_bfs<E: Clone + Serialize + std::fmt::Debug>(
    rep: &Report,
    roots: Vec<Vec<E>>,
    lim: &Limits,
    mut run: impl FnMut(&[E]) -> Outcome<E>,
) -> BfsStats {
    let mut seen: HashSet<u64> = HashSet::new();
    let mut stats = BfsStats::default();
    let mut frontier: Vec<(Vec<E>, Vec<E>)> = vec![]; // (history, enabled)
    let mut handle = |rep: &Report,
                      run: &mut dyn FnMut(&[E]) -> Outcome<E>,
                      h: &[E],
                      stats: &mut BfsStats,
                      seen: &mut HashSet<u64>|
     -> Option<(Vec<E>, Vec<E>)> {
        let o = run(h);
        stats.transitions += 1;
        if !o.violations.is_empty() {
            // replay-twice rule
            let o2 = run(h);
            let k1: Vec<&String> = o.violations.iter().map(|v| &v.0).collect();
            let k2: Vec<&String> = o2.violations.iter().map(|v| &v.0).collect();
            if k1 != k2 || o.digest != o2.digest {
                machinery_error(&format!(
                    "non-deterministic replay of {h:?}: {k1:?} vs {k2:?} (digest {} vs {})",
                    o.digest, o2.digest
                ));
            }
            for (k, d) in &o.violations {
                rep.violation(k, json!({"history": h, "details": d}));
            }
        }
        rep.outcome(o.outcome);
        if seen.insert(o.digest) {
            stats.states += 1;
            if o.nontrivial {
                rep.nontrivial(o.digest);
            }
            if stats.states % 97 == 1 {
                rep.sample(json!({"history": h}));
            }
            Some((h.to_vec(), o.enabled))
        } else {
            None
        }
    };
    for r in roots {
        if let Some(x) = handle(rep, &mut run, &r, &mut stats, &mut seen) {
            frontier.push(x);
        }
    }
    let mut depth = 0;
    while depth < lim.max_depth && !frontier.is_empty() {
        let mut next = vec![];
        let mut idx = 0;
        let total = frontier.len();
        for (h, enabled) in frontier.iter() {
            idx += 1;
            for ev in enabled {
                if stats.transitions >= lim.max_execs {
                    stats.capped = Some(format!("execution cap {} hit at depth {}", lim.max_execs, depth + 1));
                }
                if let Some(d) = lim.deadline {
                    if Instant::now() > d {
                        stats.capped = Some(format!("wall-clock cap hit at depth {}", depth + 1));
                    }
                }
                if stats.capped.is_some() {
                    break;
                }
                let mut h2 = h.clone();
                h2.push(ev.clone());
                if let Some(x) = handle(rep, &mut run, &h2, &mut stats, &mut seen) {
                    next.push(x);
                }
            }
            if stats.capped.is_some() {
                stats.frontier_left = total - idx + 1;
                break;
            }
        }
        if stats.capped.is_some() {
            break;
        }
        depth += 1;
        stats.depth_completed = depth;
        frontier = next;
    }
    if stats.capped.is_none() && frontier.is_empty() {
        // fix-point reached
        stats.depth_completed = usize::MAX;
    }
    stats
}

pub fn record_stats(rep: &Report, prefix: &str, s: &BfsStats) {
    rep.add("states", s.states);
    rep.add("transitions", s.transitions);
    rep.set(
        &format!("{prefix}depth_completed"),
        if s.depth_completed == usize::MAX { json!("fix-point") } else { json!(s.depth_completed) },
    );
    if let Some(c) = &s.capped {
        rep.set(&format!("{prefix}cap_hit"), c.clone());
        rep.set("exhaustive", false);
    }
}

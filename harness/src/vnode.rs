//! "A real node under the harness": a real `Agent` on its own database files, driven one step at
//! a time by calling the repository's own functions. Nothing runs unless the harness calls it.

use axum::Extension;
use klukai_agent::agent::process_multiple_changes;
use klukai_agent::agent::util::{clear_buffered_meta_loop, process_fully_buffered_changes};
use klukai_agent::api::public::{TimeoutParams, api_v1_db_schema, api_v1_transactions};
use klukai_types::actor::{ActorId, ClusterId};
use klukai_types::agent::{
    Agent, AgentConfig, Booked, BookedVersions, Bookie, LockRegistry, SplitPool, migrate,
};
use klukai_types::api::{ExecResponse, Statement};
use klukai_types::base::{CrsqlDbVersion, CrsqlSeq};
use klukai_types::broadcast::{
    BroadcastInput, BroadcastV1, ChangeSource, ChangeV1, Changeset, FocaInput,
};
use klukai_types::change::Change;
use klukai_types::channel::{CorroReceiver, bounded};
use klukai_types::config::{Config, PerfConfig};
use klukai_types::members::Members;
use klukai_types::pubsub::SubsManager;
use klukai_types::schema::init_schema;
use klukai_types::sqlite::CrConn;
use klukai_types::sync::{SyncMessage, SyncMessageV1, SyncNeedV1, SyncStateV1, generate_sync};
use klukai_types::tripwire::Tripwire;
use klukai_types::updates::UpdatesManager;
use rusqlite::Connection;
use std::collections::BTreeMap;
use std::ops::RangeInclusive;
use std::path::{Path, PathBuf};
use std::sync::Arc;
use std::sync::atomic::{AtomicU64, Ordering};
use std::time::{Duration, Instant};

pub const TX_TIMEOUT: Duration = Duration::from_secs(60);

static DIR_CTR: AtomicU64 = AtomicU64::new(0);

/// Fresh scratch directory on tmpfs; removed by `Scratch::drop`.
pub struct Scratch(pub PathBuf);
impl Scratch {
    pub fn new(tag: &str) -> Self {
        let n = DIR_CTR.fetch_add(1, Ordering::Relaxed);
        let p = PathBuf::from(format!("/dev/shm/vh-{}-{}-{}", std::process::id(), tag, n));
        let _ = std::fs::remove_dir_all(&p);
        std::fs::create_dir_all(&p).expect("scratch dir");
        Scratch(p)
    }
    pub fn path(&self) -> &Path {
        &self.0
    }
}
impl Drop for Scratch {
    fn drop(&mut self) {
        let _ = std::fs::remove_dir_all(&self.0);
    }
}

/// Remove stale scratch dirs of dead processes (best effort).
pub fn sweep_stale_scratch() {
    if let Ok(rd) = std::fs::read_dir("/dev/shm") {
        for e in rd.flatten() {
            let name = e.file_name().to_string_lossy().to_string();
            if let Some(rest) = name.strip_prefix("vh-") {
                if let Some(pid) = rest.split('-').next().and_then(|p| p.parse::<i32>().ok()) {
                    if !Path::new(&format!("/proc/{pid}")).exists() {
                        let _ = std::fs::remove_dir_all(e.path());
                    }
                }
            }
        }
    }
}

pub fn site_id(idx: usize) -> ActorId {
    // fixed, distinct, valid uhlc ids (non-zero)
    let mut b = [0u8; 16];
    b[0] = 0xA0 + idx as u8;
    b[15] = 1 + idx as u8;
    ActorId::from_bytes(b)
}

/// Database template: a migrated database with a pinned site id and the user schema applied,
/// kept as bytes so an execution starts with a file copy.
#[derive(Clone)]
pub struct Template {
    pub idx: usize,
    pub db: Arc<Vec<u8>>,
}

pub fn new_runtime(workers: usize) -> tokio::runtime::Runtime {
    tokio::runtime::Builder::new_multi_thread()
        .worker_threads(workers)
        .enable_all()
        .build()
        .expect("runtime")
}

impl Template {
    /// Build a template for node `idx` with `schema` applied through the real schema API.
    pub fn build(idx: usize, schema: &str) -> Template {
        let scratch = Scratch::new("tpl");
        let db_path = scratch.path().join("corrosion.db");
        // 1. create the crsql tables (random site id), 2. pin the site id with a plain connection
        {
            let conn = Connection::open(&db_path).unwrap();
            conn.execute_batch("PRAGMA auto_vacuum = INCREMENTAL").unwrap();
            let cr = CrConn::init(conn).unwrap();
            let _: ActorId = cr
                .query_row("SELECT crsql_site_id()", [], |r| r.get(0))
                .unwrap();
        }
        {
            let conn = Connection::open(&db_path).unwrap();
            let n = conn
                .execute(
                    "UPDATE crsql_site_id SET site_id = ? WHERE ordinal = 0",
                    [site_id(idx)],
                )
                .unwrap();
            assert_eq!(n, 1, "site id pinned");
        }
        let rt = new_runtime(2);
        let schema = schema.to_string();
        let dbp = db_path.clone();
        rt.block_on(async move {
            let node = Node::open(&dbp, NodeOpts::default()).await;
            assert_eq!(node.agent.actor_id(), site_id(idx), "pinned site id in effect");
            if !schema.is_empty() {
                let (status, body) =
                    api_v1_db_schema(Extension(node.agent.clone()), axum::Json(vec![schema])).await;
                assert!(status.is_success(), "template schema: {:?}", body.0);
            }
            node.checkpoint_truncate().await;
            node.close().await;
        });
        drop(rt);
        let db = std::fs::read(&db_path).unwrap();
        assert!(
            !db_path.with_extension("db-wal").exists()
                || std::fs::metadata(db_path.with_extension("db-wal")).unwrap().len() == 0,
            "template WAL must be empty"
        );
        Template {
            idx,
            db: Arc::new(db),
        }
    }

    pub fn instantiate(&self, dir: &Path) -> PathBuf {
        std::fs::create_dir_all(dir).unwrap();
        let p = dir.join("corrosion.db");
        std::fs::write(&p, &*self.db).unwrap();
        p
    }
}

#[derive(Clone)]
pub struct NodeOpts {
    pub perf: PerfConfig,
    pub cluster_id: ClusterId,
    /// disable automatic WAL checkpoints on the write connection (crash forks need the full log)
    pub no_autocheckpoint: bool,
}
impl Default for NodeOpts {
    fn default() -> Self {
        NodeOpts {
            perf: PerfConfig::default(),
            cluster_id: ClusterId(0),
            no_autocheckpoint: false,
        }
    }
}

/// A real agent opened without sockets (AgentConfig built directly), plus the receiving ends of
/// every channel and a harness-owned Bookie loaded the way `run_root::run` loads it.
pub struct Node {
    pub db_path: PathBuf,
    pub agent: Agent,
    pub bookie: Bookie,
    pub rx_bcast: CorroReceiver<BroadcastInput>,
    pub rx_apply: CorroReceiver<(ActorId, CrsqlDbVersion)>,
    pub rx_clear_buf: CorroReceiver<(ActorId, RangeInclusive<CrsqlDbVersion>)>,
    pub rx_changes: CorroReceiver<(ChangeV1, ChangeSource)>,
    pub rx_foca: CorroReceiver<FocaInput>,
    pub tripwire: Tripwire,
    pub tripwire_tx: tokio::sync::mpsc::Sender<()>,
    /// `rx_apply` triggers scheduled at open for complete partials (like run_root does)
    pub lock_registry: LockRegistry,
    tx_clear_h: klukai_types::channel::CorroSender<(ActorId, RangeInclusive<CrsqlDbVersion>)>,
}

/// Count of `clear_buf.done` emissions in this process (one execution at a time per process).
pub static CLEAR_DONE: AtomicU64 = AtomicU64::new(0);
/// The same count per tokio runtime (engines that run several executions in parallel threads).
static CLEAR_DONE_RT: std::sync::Mutex<Option<std::collections::HashMap<tokio::runtime::Id, u64>>> = std::sync::Mutex::new(None);

fn clear_done_here() -> u64 {
    let id = tokio::runtime::Handle::current().id();
    CLEAR_DONE_RT.lock().unwrap().as_ref().and_then(|m| m.get(&id).copied()).unwrap_or(0)
}
/// Other emissions, by name, for engines that want them.
pub static EMITS: std::sync::Mutex<Vec<(String, String)>> = std::sync::Mutex::new(Vec::new());
/// Number of emissions per (name, detail) - what the engines poll (the list above would make every
/// poll linear in the length of the run).
static EMIT_COUNTS: std::sync::Mutex<Option<std::collections::HashMap<(String, String), usize>>> = std::sync::Mutex::new(None);

pub fn emit_count(name: &str, detail: &str) -> usize {
    EMIT_COUNTS.lock().unwrap().as_ref().and_then(|m| m.get(&(name.to_string(), detail.to_string())).copied()).unwrap_or(0)
}

pub fn install_emit_handler() {
    klukai_types::verif::set_emit_handler(Some(Arc::new(|name: &str, detail: &str| {
        if name == "clear_buf.done" {
            CLEAR_DONE.fetch_add(1, Ordering::SeqCst);
            if let Ok(h) = tokio::runtime::Handle::try_current() {
                let id = h.id();
                *CLEAR_DONE_RT.lock().unwrap().get_or_insert_with(Default::default).entry(id).or_insert(0) += 1;
            }
        } else {
            let mut g = EMIT_COUNTS.lock().unwrap();
            let m = g.get_or_insert_with(Default::default);
            if name == "matcher.batch_done" {
                // detail = "<subscription id>|<candidates in the batch>": counted per id, and once
                // more under ".big" when the batch held a whole barrier (>= 1000 candidates) - a
                // batch cut by the matcher's 600 ms deadline is never that large
                let mut p = detail.splitn(2, '|');
                let id = p.next().unwrap_or("").to_string();
                let n: usize = p.next().and_then(|x| x.parse().ok()).unwrap_or(0);
                *m.entry((name.to_string(), id.clone())).or_insert(0) += 1;
                if n >= 1000 {
                    *m.entry(("matcher.batch_done.big".to_string(), id)).or_insert(0) += 1;
                }
            } else {
                *m.entry((name.to_string(), detail.to_string())).or_insert(0) += 1;
            }
        }
    })));
}

/// Number of long-lived tasks on the current runtime. Set when a node finishes opening (no
/// transient task runs then); several nodes sharing one runtime share this value, a node with a
/// runtime of its own (`RtNode`) has its own. Engines that start further long-lived tasks
/// (matchers, listeners) call `rebaseline()` at a point where nothing transient runs.
thread_local! {
    static _UNUSED: () = const { () };
}
/// per runtime; entries of dead runtimes are never looked up again (a few bytes each)
static BASELINES: std::sync::Mutex<Option<std::collections::HashMap<tokio::runtime::Id, u64>>> = std::sync::Mutex::new(None);

pub fn rebaseline() {
    let id = tokio::runtime::Handle::current().id();
    let n = alive_tasks() as u64;
    BASELINES.lock().unwrap().get_or_insert_with(Default::default).insert(id, n);
}

/// Like `rebaseline`, for points where short-lived tasks may still be finishing or long-lived
/// ones are still being spawned: waits until the number of alive tasks has been the same for
/// 10 ms (40 consecutive samples), at most 2 s, and records that value.
pub async fn rebaseline_settled() {
    let start = Instant::now();
    let mut last = alive_tasks();
    let mut same = 0;
    while same < 40 && start.elapsed() < Duration::from_secs(2) {
        tokio::time::sleep(Duration::from_micros(250)).await;
        let now = alive_tasks();
        if now == last {
            same += 1;
        } else {
            last = now;
            same = 0;
        }
    }
    let id = tokio::runtime::Handle::current().id();
    BASELINES.lock().unwrap().get_or_insert_with(Default::default).insert(id, last as u64);
}

pub fn baseline() -> usize {
    let id = tokio::runtime::Handle::current().id();
    match BASELINES.lock().unwrap().as_ref().and_then(|m| m.get(&id).copied()) {
        Some(n) => n as usize,
        None => crate::vcore::machinery_error("no task baseline recorded for this runtime"),
    }
}

pub fn alive_tasks() -> usize {
    tokio::runtime::Handle::current().metrics().num_alive_tasks()
}

/// Wait until the number of alive tasks on this runtime is back at `baseline`.
pub async fn wait_tasks(baseline: usize) {
    let start = Instant::now();
    let mut spins = 0u64;
    loop {
        if alive_tasks() <= baseline {
            return;
        }
        // poll with short sleeps rather than spinning on yield_now: a busy block_on root was
        // observed to keep freshly spawned tasks from being picked up on larger runtimes
        spins += 1;
        tokio::time::sleep(Duration::from_micros(if spins < 20 { 30 } else { 150 })).await;
        if start.elapsed() > Duration::from_secs(120) {
            crate::vcore::machinery_error(&format!(
                "background tasks did not quiesce: alive={} baseline={}",
                alive_tasks(),
                baseline
            ));
        }
    }
}

impl Node {
    pub async fn open(db_path: &Path, opts: NodeOpts) -> Node {
        let conf: Config = Config::builder()
            .db_path(db_path.display().to_string())
            .gossip_addr("127.0.0.1:0".parse().unwrap())
            .api_addr("127.0.0.1:0".parse().unwrap())
            .build()
            .unwrap();
        let mut conf = conf;
        conf.perf = opts.perf.clone();

        let actor_id = {
            let db_conn = Connection::open(db_path).unwrap();
            db_conn.execute_batch("PRAGMA auto_vacuum = INCREMENTAL").unwrap();
            let conn = CrConn::init(db_conn).unwrap();
            conn.query_row("SELECT crsql_site_id();", [], |row| row.get::<_, ActorId>(0))
                .unwrap()
        };
        let write_sema = Arc::new(tokio::sync::Semaphore::new(1));
        let pool = SplitPool::create(db_path, write_sema.clone()).await.unwrap();
        let clock = Arc::new(
            uhlc::HLCBuilder::default()
                .with_id(actor_id.try_into().unwrap())
                .with_max_delta(Duration::from_millis(300))
                .build(),
        );
        let schema = {
            let mut conn = pool.write_priority().await.unwrap();
            if opts.no_autocheckpoint {
                conn.execute_batch("PRAGMA wal_autocheckpoint = 0").unwrap();
            }
            tokio::task::block_in_place(|| migrate(clock.clone(), &mut conn)).unwrap();
            let mut schema = init_schema(&conn).unwrap();
            schema.constrain().unwrap();
            schema
        };
        let cluster_id = opts.cluster_id;
        let (tx_apply, rx_apply) = bounded(conf.perf.apply_channel_len, "apply");
        let (tx_clear_buf, rx_clear_buf) = bounded(conf.perf.clearbuf_channel_len, "clear_buf");
        let (tx_bcast, rx_bcast) = bounded(conf.perf.bcast_channel_len, "bcast");
        let (tx_changes, rx_changes) = bounded(conf.perf.changes_channel_len, "changes");
        let (tx_foca, rx_foca) = bounded(conf.perf.foca_channel_len, "foca");
        let lock_registry = LockRegistry::default();
        let own = {
            let conn = pool.read().await.unwrap();
            tokio::task::block_in_place(|| BookedVersions::from_conn(&conn, actor_id)).unwrap()
        };
        let booked = Booked::new(own, lock_registry.clone());
        let (tripwire, tripwire_worker, tripwire_tx) = Tripwire::new_simple();
        tokio::spawn(tripwire_worker);
        let agent = Agent::new(AgentConfig {
            actor_id,
            pool,
            gossip_addr: "127.0.0.1:1".parse().unwrap(),
            external_addr: None,
            api_addr: "127.0.0.1:1".parse().unwrap(),
            members: parking_lot::RwLock::new(Members::default()),
            config: arc_swap::ArcSwap::from_pointee(conf),
            clock,
            booked,
            tx_bcast,
            tx_apply,
            tx_clear_buf,
            tx_changes,
            tx_foca,
            write_sema,
            schema: parking_lot::RwLock::new(schema),
            cluster_id,
            subs_manager: SubsManager::default(),
            updates_manager: UpdatesManager::default(),
            tripwire: tripwire.clone(),
        });

        // Bookie, loaded the way run_root::run does it
        let bookie = Bookie::new_with_registry(Default::default(), lock_registry.clone());
        {
            let mut w = bookie.write::<&str, _>("init", None).await;
            w.insert(agent.actor_id(), agent.booked().clone());
        }
        install_emit_handler();
        let (tx_clear_h, rx_clear_h) = bounded(64, "clear_buf_h");
        tokio::spawn(clear_buffered_meta_loop(agent.clone(), rx_clear_h));
        {
            let conn = agent.pool().read().await.unwrap();
            let actor_ids: Vec<ActorId> = conn
                .prepare(
                    "SELECT site_id FROM crsql_site_id WHERE ordinal > 0
                        UNION
                    SELECT distinct site_id FROM __corro_seq_bookkeeping",
                )
                .unwrap()
                .query_map([], |row| row.get(0))
                .and_then(|rows| rows.collect::<rusqlite::Result<Vec<_>>>())
                .unwrap();
            for other in actor_ids.into_iter().filter(|a| *a != agent.actor_id()) {
                let bv =
                    tokio::task::block_in_place(|| BookedVersions::from_conn(&conn, other)).unwrap();
                for (version, partial) in bv.partials.iter() {
                    let gaps = partial.seqs.gaps(&(CrsqlSeq(0)..=partial.last_seq)).count();
                    if gaps == 0 {
                        agent.tx_apply().send((other, *version)).await.unwrap();
                    }
                }
                bookie
                    .write::<&str, _>("replace_actor", None)
                    .await
                    .replace_actor(other, bv);
            }
        }
        rebaseline();
        Node {
            db_path: db_path.to_path_buf(),
            agent,
            bookie,
            rx_bcast,
            rx_apply,
            rx_clear_buf,
            rx_changes,
            rx_foca,
            tripwire,
            tripwire_tx,
            lock_registry,
            tx_clear_h,
        }
    }

    pub fn actor_id(&self) -> ActorId {
        self.agent.actor_id()
    }

    pub async fn quiesce(&self) {
        wait_tasks(baseline()).await
    }

    pub async fn checkpoint_truncate(&self) {
        let conn = self.agent.pool().write_priority().await.unwrap();
        tokio::task::block_in_place(|| {
            conn.query_row("PRAGMA wal_checkpoint(TRUNCATE)", [], |_r| Ok(()))
                .unwrap()
        });
    }

    pub async fn close(self) {
        // dropping the agent drops the pools; connections finalize crsql on drop
        drop(self);
    }

    // ------------------------------------------------------------------ steps

    /// Local write transaction through the real API handler. Returns status, response body and
    /// the changesets the node queued for broadcast.
    pub async fn write(
        &mut self,
        stmts: Vec<Statement>,
        timeout: Option<u64>,
    ) -> (u16, ExecResponse, Vec<ChangeV1>) {
        let (status, body) = api_v1_transactions(
            Extension(self.agent.clone()),
            axum::extract::Query(TimeoutParams { timeout }),
            axum::extract::Json(stmts),
        )
        .await;
        self.quiesce().await;
        let bcast = self.drain_bcast();
        (status.as_u16(), body.0, bcast)
    }

    pub fn drain_bcast(&mut self) -> Vec<ChangeV1> {
        let mut out = vec![];
        while let Ok(b) = self.rx_bcast.try_recv() {
            match b {
                BroadcastInput::AddBroadcast(BroadcastV1::Change(c))
                | BroadcastInput::Rebroadcast(BroadcastV1::Change(c)) => out.push(c),
            }
        }
        out
    }

    /// One batch of remote changesets through the real `process_multiple_changes`.
    pub async fn deliver(&self, batch: Vec<ChangeV1>) -> Result<(), String> {
        let now = Instant::now();
        let res = process_multiple_changes(
            self.agent.clone(),
            self.bookie.clone(),
            batch.into_iter().map(|c| (c, ChangeSource::Sync, now)).collect(),
            TX_TIMEOUT,
        )
        .await
        .map_err(|e| e.to_string());
        self.quiesce().await;
        res
    }

    /// Pop one `rx_apply` trigger and run the real `process_fully_buffered_changes`.
    pub async fn apply_one(&mut self) -> Option<(ActorId, CrsqlDbVersion, Result<bool, String>)> {
        let (actor, version) = self.rx_apply.try_recv().ok()?;
        let r = process_fully_buffered_changes(&self.agent, &self.bookie, actor, version, TX_TIMEOUT)
            .await
            .map_err(|e| e.to_string());
        self.quiesce().await;
        Some((actor, version, r))
    }

    pub fn pending_apply(&mut self) -> Vec<(ActorId, CrsqlDbVersion)> {
        let mut v = vec![];
        while let Ok(x) = self.rx_apply.try_recv() {
            v.push(x);
        }
        // put them back in order
        for x in &v {
            self.agent.tx_apply().try_send(*x).expect("re-queue apply");
        }
        v
    }

    pub fn pending_clear(&mut self) -> Vec<(ActorId, RangeInclusive<CrsqlDbVersion>)> {
        let mut v = vec![];
        while let Ok(x) = self.rx_clear_buf.try_recv() {
            v.push(x);
        }
        for x in &v {
            self.agent.tx_clear_buf().try_send(x.clone()).expect("re-queue clear");
        }
        v
    }

    /// Pop one `rx_clear_buf` request and hand it to the real `clear_buffered_meta_loop`
    /// (spawned at open on a harness-owned channel); returns when its task reported completion
    /// through the `clear_buf.done` emit hook.
    pub async fn clear_one(&mut self) -> Option<(ActorId, RangeInclusive<CrsqlDbVersion>)> {
        let item = self.rx_clear_buf.try_recv().ok()?;
        let before = clear_done_here();
        self.tx_clear_h.send(item.clone()).await.unwrap();
        let start = Instant::now();
        while clear_done_here() == before {
            tokio::task::yield_now().await;
            if start.elapsed() > Duration::from_secs(30) {
                crate::vcore::machinery_error("clear loop did not finish the request");
            }
        }
        self.quiesce().await;
        Some(item)
    }

    pub async fn sync_state(&self) -> SyncStateV1 {
        generate_sync(&self.bookie, self.agent.actor_id()).await
    }

    /// Serve a sync request with the real `process_sync` (filter + `handle_need`).
    pub async fn serve(&self, req: Vec<(ActorId, Vec<SyncNeedV1>)>) -> Result<Vec<ChangeV1>, String> {
        let (tx_need, rx_need) = tokio::sync::mpsc::channel(16);
        let (tx, mut rx) = tokio::sync::mpsc::channel::<SyncMessage>(4096);
        tx_need.send(req).await.unwrap();
        drop(tx_need);
        let res = klukai_agent::verif::process_sync(
            self.agent.pool().clone(),
            self.bookie.clone(),
            tx,
            rx_need,
        )
        .await
        .map_err(|e| e.to_string());
        let mut out = vec![];
        while let Ok(m) = rx.try_recv() {
            if let SyncMessage::V1(SyncMessageV1::Changeset(c)) = m {
                out.push(c);
            }
        }
        res.map(|_| out)
    }

    // ------------------------------------------------------------------ observation

    pub async fn read<T: Send>(&self, f: impl FnOnce(&Connection) -> T + Send) -> T {
        let conn = self.agent.pool().read().await.unwrap();
        tokio::task::block_in_place(|| f(&conn))
    }

    /// All rows of `crsql_changes`, projected (no ts), ordered.
    pub async fn crsql_changes(&self) -> Vec<Change> {
        self.read(|c| read_changes(c, None)).await
    }

    pub async fn table_rows(&self, table: &str) -> Vec<Vec<String>> {
        let t = table.to_string();
        self.read(move |c| dump_query(c, &format!("SELECT * FROM {t} ORDER BY 1,2"))).await
    }

    /// In-memory bookkeeping of every actor, canonical.
    pub async fn booked_view(&self) -> BTreeMap<ActorId, BookedView> {
        let actors: Vec<(ActorId, Booked)> = self
            .bookie
            .read::<&str, _>("verif", None)
            .await
            .iter()
            .map(|(k, v)| (*k, v.clone()))
            .collect();
        let mut out = BTreeMap::new();
        for (a, b) in actors {
            let r = b.read::<&str, _>("verif", None).await;
            out.insert(a, BookedView::of(&r));
        }
        out
    }
}

#[derive(Debug, Clone, PartialEq, Eq, Hash)]
pub struct BookedView {
    pub max: Option<u64>,
    pub needed: Vec<(u64, u64)>,
    pub partials: Vec<(u64, Vec<(u64, u64)>, u64)>,
}
impl BookedView {
    pub fn of(bv: &BookedVersions) -> Self {
        BookedView {
            max: bv.last().map(|v| v.0),
            needed: bv.needed().iter().map(|r| (r.start().0, r.end().0)).collect(),
            partials: bv
                .partials
                .iter()
                .map(|(v, p)| {
                    (
                        v.0,
                        p.seqs.iter().map(|r| (r.start().0, r.end().0)).collect(),
                        p.last_seq.0,
                    )
                })
                .collect(),
        }
    }
}

pub fn read_changes(c: &Connection, site: Option<ActorId>) -> Vec<Change> {
    let sql = r#"SELECT "table", pk, cid, val, col_version, db_version, seq, site_id, cl FROM crsql_changes ORDER BY site_id, db_version, seq"#;
    let mut st = c.prepare(sql).unwrap();
    let rows = st
        .query_map([], klukai_types::change::row_to_change)
        .unwrap()
        .collect::<rusqlite::Result<Vec<_>>>()
        .unwrap();
    match site {
        Some(s) => rows.into_iter().filter(|r| r.site_id == s.to_bytes()).collect(),
        None => rows,
    }
}

/// Dump a query's rows as strings (type-tagged), for canonical comparison.
pub fn dump_query(c: &Connection, sql: &str) -> Vec<Vec<String>> {
    let mut st = match c.prepare(sql) {
        Ok(s) => s,
        Err(e) => return vec![vec![format!("ERR:{e}")]],
    };
    let n = st.column_count();
    let mut rows = st.query([]).unwrap();
    let mut out = vec![];
    while let Ok(Some(r)) = rows.next() {
        let mut row = vec![];
        for i in 0..n {
            let v: rusqlite::types::Value = r.get(i).unwrap();
            row.push(match v {
                rusqlite::types::Value::Null => "NULL".to_string(),
                rusqlite::types::Value::Integer(i) => format!("i:{i}"),
                rusqlite::types::Value::Real(f) => format!("r:{f}"),
                rusqlite::types::Value::Text(t) => format!("t:{t}"),
                rusqlite::types::Value::Blob(b) => format!("b:{}", hex(&b)),
            });
        }
        out.push(row);
    }
    out
}

pub fn hex(b: &[u8]) -> String {
    b.iter().map(|x| format!("{x:02x}")).collect()
}

/// Helper: a Full changeset.
pub fn full(
    actor: ActorId,
    version: u64,
    changes: Vec<Change>,
    seqs: RangeInclusive<u64>,
    last_seq: u64,
    ts: klukai_types::broadcast::Timestamp,
) -> ChangeV1 {
    ChangeV1 {
        actor_id: actor,
        changeset: Changeset::Full {
            version: CrsqlDbVersion(version),
            changes,
            seqs: CrsqlSeq(*seqs.start())..=CrsqlSeq(*seqs.end()),
            last_seq: CrsqlSeq(last_seq),
            ts,
        },
    }
}

pub fn empty(actor: ActorId, versions: RangeInclusive<u64>) -> ChangeV1 {
    ChangeV1 {
        actor_id: actor,
        changeset: Changeset::Empty {
            versions: CrsqlDbVersion(*versions.start())..=CrsqlDbVersion(*versions.end()),
            ts: None,
        },
    }
}

// ------------------------------------------------------------------------------------------
// WAL prefixes (crash states) and the faithful restart
// ------------------------------------------------------------------------------------------

/// Byte offsets in a WAL file right after each commit frame.
pub fn wal_commit_offsets(wal: &[u8]) -> Vec<usize> {
    if wal.len() < 32 {
        return vec![];
    }
    let page = u32::from_be_bytes([wal[8], wal[9], wal[10], wal[11]]) as usize;
    let mut out = vec![];
    let mut off = 32;
    while off + 24 + page <= wal.len() {
        let dbsize = u32::from_be_bytes([wal[off + 4], wal[off + 5], wal[off + 6], wal[off + 7]]);
        off += 24 + page;
        if dbsize != 0 {
            out.push(off);
        }
    }
    out
}

pub fn wal_frame_len(wal: &[u8]) -> usize {
    if wal.len() < 32 {
        return 0;
    }
    24 + u32::from_be_bytes([wal[8], wal[9], wal[10], wal[11]]) as usize
}

/// Crash image: the database file plus the first `cut` bytes of its WAL (no -shm), in `dir`.
pub fn crash_image(db_path: &Path, wal: &[u8], cut: usize, dir: &Path) -> PathBuf {
    std::fs::create_dir_all(dir).unwrap();
    let dst = dir.join(db_path.file_name().unwrap());
    std::fs::copy(db_path, &dst).unwrap();
    let mut w = dst.clone().into_os_string();
    w.push("-wal");
    std::fs::write(PathBuf::from(w), &wal[..cut.min(wal.len())]).unwrap();
    dst
}

pub fn wal_path(db_path: &Path) -> PathBuf {
    let mut w = db_path.to_path_buf().into_os_string();
    w.push("-wal");
    PathBuf::from(w)
}

/// A node started by the real `start_with_config` (all loops live, loopback sockets), wrapped so
/// that the observation helpers of `Node` work on it. Its own apply / clear loops run by
/// themselves; the harness only observes and calls `deliver`.
pub struct FullNode {
    rt: Option<tokio::runtime::Runtime>,
    node: Option<Node>,
}

impl FullNode {
    pub fn start(db_path: &Path) -> Result<FullNode, String> {
        let rt = new_runtime(4);
        let dbp = db_path.to_path_buf();
        let node = rt.block_on(async move {
            let conf: Config = Config::builder()
                .db_path(dbp.display().to_string())
                .gossip_addr("127.0.0.1:0".parse().unwrap())
                .api_addr("127.0.0.1:0".parse().unwrap())
                .admin_path(dbp.with_extension("admin.sock").display().to_string())
                .build()
                .unwrap();
            let (tripwire, worker, tripwire_tx) = Tripwire::new_simple();
            tokio::spawn(worker);
            let (agent, bookie, _transport, _handles) = klukai_agent::agent::start_with_config(conf, tripwire.clone())
                .await
                .map_err(|e| format!("start_with_config: {e}"))?;
            let (_t1, rx_apply) = bounded(1, "x_apply");
            let (tx_clear_h, rx_clear_buf) = bounded(1, "x_clear");
            let (_t3, rx_bcast) = bounded(1, "x_bcast");
            let (_t4, rx_changes) = bounded(1, "x_changes");
            let (_t5, rx_foca) = bounded(1, "x_foca");
            let t_s = Instant::now();
            rebaseline_settled().await;
            if std::env::var("VH_TIMING").is_ok() {
                eprintln!("settle {:?} tasks {}", t_s.elapsed(), alive_tasks());
            }
            Ok::<_, String>(Node {
                db_path: dbp.clone(),
                agent,
                bookie,
                rx_bcast,
                rx_apply,
                rx_clear_buf,
                rx_changes,
                rx_foca,
                tripwire,
                tripwire_tx,
                lock_registry: LockRegistry::default(),
                tx_clear_h,
            })
        })?;
        Ok(FullNode { rt: Some(rt), node: Some(node) })
    }
    pub fn run<R>(&mut self, f: impl AsyncFnOnce(&mut Node) -> R) -> R {
        let rt = self.rt.as_ref().unwrap();
        let node = self.node.as_mut().unwrap();
        rt.block_on(f(node))
    }
    pub fn node(&self) -> &Node {
        self.node.as_ref().unwrap()
    }
}

impl Drop for FullNode {
    fn drop(&mut self) {
        if let (Some(node), Some(rt)) = (self.node.take(), self.rt.take()) {
            {
                let _g = rt.enter();
                let _ = node.tripwire_tx.try_send(());
                drop(node);
            }
            rt.shutdown_background();
        }
    }
}


/// A node with a tokio runtime of its own, driven from a plain thread. Dropping it kills every
/// task of the node at once (that is what a crash does); `restart` reopens the same files.
pub struct RtNode {
    rt: Option<tokio::runtime::Runtime>,
    node: Option<Node>,
    pub db_path: PathBuf,
    pub opts: NodeOpts,
}

impl RtNode {
    pub fn open(db_path: &Path, opts: NodeOpts) -> RtNode {
        let rt = new_runtime(2);
        let node = rt.block_on(Node::open(db_path, opts.clone()));
        RtNode { rt: Some(rt), node: Some(node), db_path: db_path.to_path_buf(), opts }
    }
    pub fn run<R>(&mut self, f: impl AsyncFnOnce(&mut Node) -> R) -> R {
        let rt = self.rt.as_ref().unwrap();
        let node = self.node.as_mut().unwrap();
        rt.block_on(f(node))
    }
    pub fn node(&self) -> &Node {
        self.node.as_ref().unwrap()
    }
    /// Abrupt stop: memory and every task gone, files as they are.
    pub fn crash(&mut self) {
        let node = self.node.take();
        let rt = self.rt.take();
        // drop the node inside its runtime context (pool drops may need one), then the runtime
        if let (Some(node), Some(rt)) = (node, rt) {
            {
                let _g = rt.enter();
                drop(node);
            }
            rt.shutdown_timeout(Duration::from_secs(5));
        }
    }
    pub fn restart(&mut self) {
        self.crash();
        let rt = new_runtime(2);
        let node = rt.block_on(Node::open(&self.db_path, self.opts.clone()));
        self.rt = Some(rt);
        self.node = Some(node);
    }
}

impl Drop for RtNode {
    fn drop(&mut self) {
        self.crash();
    }
}

#![feature(step_trait)]
pub mod vcore;

#![feature(step_trait)]
pub mod vcore;
pub mod vnode;
pub mod explore;
pub mod model;

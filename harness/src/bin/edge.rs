//! E9 `edge`: configuration grids on live listeners.
//!  C17: the real API router + middleware (`setup_http_api_handler`) on a TCP listener; raw
//!       HTTP/1.1 requests for exact control of the Authorization header; statement grammar
//!       against the read endpoints.
//!  C16: see `c16`.

use klukai_types::api::Statement;
use klukai_types::config::AuthzConfig;
use serde_json::{Value, json};
use std::io::{Read, Write};
use std::time::{Duration, Instant};
use vh::vcore::*;
use vh::vnode::*;

const SCHEMA: &str = "CREATE TABLE t (id INTEGER PRIMARY KEY NOT NULL, a TEXT NOT NULL DEFAULT '', b TEXT);";
const TOKEN: &str = "s3cr3t-Token_42";

fn http(addr: std::net::SocketAddr, method: &str, path: &str, auth_headers: &[String], body: &str) -> Result<(u16, String), String> {
    let mut s = std::net::TcpStream::connect(addr).map_err(|e| e.to_string())?;
    s.set_read_timeout(Some(Duration::from_secs(3))).ok();
    let mut req = format!("{method} {path} HTTP/1.1\r\nHost: localhost\r\nConnection: close\r\nContent-Type: application/json\r\nContent-Length: {}\r\n", body.len());
    for h in auth_headers {
        req.push_str(h);
        req.push_str("\r\n");
    }
    req.push_str("\r\n");
    req.push_str(body);
    s.write_all(req.as_bytes()).map_err(|e| e.to_string())?;
    // read the head; streaming endpoints never close, so read until the header end or timeout
    let mut buf = vec![];
    let mut tmp = [0u8; 4096];
    let start = Instant::now();
    loop {
        match s.read(&mut tmp) {
            Ok(0) => break,
            Ok(n) => {
                buf.extend_from_slice(&tmp[..n]);
                if buf.windows(4).any(|w| w == b"\r\n\r\n") {
                    break;
                }
            }
            Err(_) => break,
        }
        if start.elapsed() > Duration::from_secs(3) {
            break;
        }
    }
    let text = String::from_utf8_lossy(&buf).to_string();
    let status = text.split_whitespace().nth(1).and_then(|s| s.parse::<u16>().ok()).ok_or_else(|| format!("no status in {:?}", text.chars().take(80).collect::<String>()))?;
    Ok((status, text))
}

struct Live {
    node: RtNode,
    addr: std::net::SocketAddr,
    _scratch: Scratch,
}

fn start(tpl: &Template, token: Option<&str>) -> Live {
    let s = Scratch::new("edge");
    let p = tpl.instantiate(&s.path().join("n"));
    let mut node = RtNode::open(&p, NodeOpts::default());
    let token = token.map(|t| t.to_string());
    let addr = node.run(async |nd| {
        if let Some(t) = token {
            let mut conf = (**nd.agent.config()).clone();
            conf.api.authorization = Some(AuthzConfig::BearerToken(t));
            nd.agent.set_config(conf);
        }
        let listener = tokio::net::TcpListener::bind("127.0.0.1:0").await.unwrap();
        let addr = listener.local_addr().unwrap();
        let subs_cache = std::sync::Arc::new(tokio::sync::RwLock::new(Default::default()));
        let upd_cache = Default::default();
        klukai_agent::agent::util::setup_http_api_handler(&nd.agent, &nd.tripwire, subs_cache, upd_cache, nd.agent.subs_manager(), vec![listener])
            .await
            .unwrap();
        rebaseline_settled().await;
        let (st, _b, _bc) = nd.write(vec![Statement::Simple("INSERT INTO t (id,a,b) VALUES (1,'x','y')".into())], None).await;
        assert_eq!(st, 200);
        rebaseline_settled().await;
        addr
    });
    Live { node, addr, _scratch: s }
}

/// everything a request could change
fn state_digest(l: &mut Live) -> (u64, Vec<String>) {
    let dir = l.node.db_path.parent().unwrap().to_path_buf();
    // a fresh connection each time: only what is in the database counts, not the state of a
    // pooled connection
    let d = {
        let conn = rusqlite::Connection::open_with_flags(&l.node.db_path, rusqlite::OpenFlags::SQLITE_OPEN_READ_ONLY).unwrap();
        let c = klukai_types::sqlite::CrConn::init(conn).unwrap();
        let c = &c;
        (
            dump_query(c, "SELECT type, name, sql FROM sqlite_schema ORDER BY name"),
            dump_query(c, "SELECT * FROM t ORDER BY 1"),
            dump_query(c, "SELECT \"table\", hex(pk), cid, val, col_version, db_version, seq, hex(site_id), cl FROM crsql_changes ORDER BY 1,2,3"),
            dump_query(c, "SELECT * FROM __corro_bookkeeping_gaps"),
            dump_query(c, "SELECT * FROM __corro_seq_bookkeeping"),
            dump_query(c, "SELECT * FROM __corro_buffered_changes"),
            dump_query(c, "SELECT * FROM __corro_schema ORDER BY 1,2,3"),
            dump_query(c, "SELECT key, value FROM __corro_state ORDER BY 1"),
            dump_query(c, "SELECT crsql_db_version()"),
            dump_query(c, "SELECT * FROM crsql_master ORDER BY 1"),
            dump_query(c, "SELECT hex(site_id), ordinal FROM crsql_site_id ORDER BY 2"),
            dump_query(c, "PRAGMA user_version"),
        )
    };
    let mut files = vec![];
    fn walk(p: &std::path::Path, base: &std::path::Path, out: &mut Vec<String>) {
        if let Ok(rd) = std::fs::read_dir(p) {
            for e in rd.flatten() {
                let path = e.path();
                if path.is_dir() {
                    out.push(format!("{}/", path.strip_prefix(base).unwrap().display()));
                    walk(&path, base, out);
                } else {
                    let n = path.strip_prefix(base).unwrap().display().to_string();
                    if !n.ends_with("-shm") && !n.ends_with("-wal") {
                        out.push(n);
                    }
                }
            }
        }
    }
    walk(&dir, &dir, &mut files);
    files.sort();
    (digest(&d), files)
}

fn c17(cli: &Cli) {
    let rep = Report::new("C17", cli.tier, cli.seed);
    sweep_stale_scratch();
    let tpl = Template::build(0, SCHEMA);
    let routes: Vec<(&str, &str, String)> = vec![
        ("POST", "/v1/transactions", json!(["INSERT INTO t (id,a,b) VALUES (99,'hacked','h')"]).to_string()),
        ("POST", "/v1/queries", json!("SELECT * FROM t").to_string()),
        ("POST", "/v1/subscriptions", json!("SELECT id, a FROM t").to_string()),
        ("POST", "/v1/updates/t", "".to_string()),
        ("GET", "/v1/subscriptions/00000000-0000-0000-0000-000000000000", "".to_string()),
        ("POST", "/v1/migrations", json!(["CREATE TABLE hacked (id INTEGER PRIMARY KEY NOT NULL)"]).to_string()),
        ("POST", "/v1/table_stats", json!({"tables": ["t"]}).to_string()),
    ];
    let methods = ["GET", "POST", "PUT", "DELETE"];
    // (name, headers, must_be_rejected_when_token_configured)
    let shapes: Vec<(&str, Vec<String>, Option<bool>)> = vec![
        ("none", vec![], Some(true)),
        ("basic", vec![format!("Authorization: Basic {TOKEN}")], Some(true)),
        ("bearer_wrong", vec!["Authorization: Bearer not-the-token".into()], Some(true)),
        ("bearer_prefix", vec![format!("Authorization: Bearer {}", &TOKEN[..TOKEN.len() - 1])], Some(true)),
        ("bearer_suffix", vec![format!("Authorization: Bearer {TOKEN}x")], Some(true)),
        ("bearer_token_other_case", vec![format!("Authorization: Bearer {}", TOKEN.to_uppercase())], Some(true)),
        ("bearer_empty", vec!["Authorization: Bearer ".into()], Some(true)),
        ("empty_header", vec!["Authorization: ".into()], Some(true)),
        ("two_wrong_headers", vec!["Authorization: Bearer a".into(), "Authorization: Bearer b".into()], Some(true)),
        ("token_without_scheme", vec![format!("Authorization: {TOKEN}")], Some(true)),
        ("token_in_other_header", vec![format!("X-Authorization: Bearer {TOKEN}")], Some(true)),
        // not judged: scheme case / duplicated headers where one is right
        ("lowercase_scheme_exact_token", vec![format!("Authorization: bearer {TOKEN}")], None),
        ("wrong_then_exact", vec!["Authorization: Bearer a".into(), format!("Authorization: Bearer {TOKEN}")], None),
        ("exact", vec![format!("Authorization: Bearer {TOKEN}")], Some(false)),
    ];
    let mut evals = 0u64;
    let mut nontrivial = 0u64;
    for configured in [true, false] {
        let mut live = start(&tpl, if configured { Some(TOKEN) } else { None });
        let addr = live.addr;
        let mut base = state_digest(&mut live);
        for (rmethod, path, body) in &routes {
            for method in methods {
                for (sname, headers, must_reject) in &shapes {
                    let res = http(addr, method, path, headers, body);
                    evals += 1;
                    let case = json!({"token_configured": configured, "method": method, "path": path, "authorization": sname});
                    let status = match res {
                        Ok((s, _)) => s,
                        Err(e) => {
                            rep.violation("C17:no-http-response", json!({"case": case, "err": e}));
                            continue;
                        }
                    };
                    let right_method = method == *rmethod;
                    if configured {
                        match must_reject {
                            Some(true) => {
                                nontrivial += 1;
                                if !(400..500).contains(&status) {
                                    rep.violation(&format!("C17:request-without-exact-token-not-rejected:{sname}"), json!({"case": case, "status": status}));
                                }
                                let now = state_digest(&mut live);
                                if now != base {
                                    rep.violation(&format!("C17:request-without-exact-token-performed-an-action:{sname}"), json!({"case": case, "status": status, "files": now.1}));
                                }
                            }
                            Some(false) => {
                                if status == 401 {
                                    rep.violation("C17:exact-token-rejected", json!({"case": case, "status": status}));
                                }
                                // an authorised request may act: let it finish, then take a new reference state
                                live.node.run(async |_nd| rebaseline_settled().await);
                                base = state_digest(&mut live);
                            }
                            None => {
                                live.node.run(async |_nd| rebaseline_settled().await);
                                base = state_digest(&mut live);
                            }
                        }
                    } else {
                        if status == 401 {
                            rep.violation("C17:route-closed-although-no-token-is-configured", json!({"case": case, "status": status}));
                        }
                        live.node.run(async |_nd| rebaseline_settled().await);
                    }
                    let _ = right_method;
                    rep.outcome(digest(&(configured, status, sname)));
                }
            }
        }
        // unknown path
        for (sname, headers, must_reject) in &shapes {
            let res = http(addr, "POST", "/v1/nope", headers, "{}");
            evals += 1;
            if let (Ok((status, _)), Some(true), true) = (&res, must_reject, configured) {
                if !(400..500).contains(status) {
                    rep.violation("C17:unknown-path-not-a-client-error", json!({"status": status, "authorization": sname}));
                }
            }
        }
        if evals % 2 == 0 {
            rep.sample(json!({"token_configured": configured, "request": "POST /v1/transactions", "authorization": "bearer_prefix"}));
        }
    }

    // ---- read endpoints cannot write
    let writes: Vec<&str> = vec![
        "INSERT INTO t (id,a,b) VALUES (50,'w','w')",
        "UPDATE t SET a='w'",
        "DELETE FROM t",
        "REPLACE INTO t (id,a,b) VALUES (1,'w','w')",
        "CREATE TABLE w1 (id INTEGER PRIMARY KEY NOT NULL)",
        "DROP TABLE t",
        "ALTER TABLE t ADD COLUMN z TEXT",
        "CREATE INDEX w_idx ON t (a)",
        "PRAGMA user_version = 7",
        "PRAGMA journal_mode = DELETE",
        "PRAGMA writable_schema = ON",
        "ATTACH DATABASE '/dev/shm/vh-edge-attached.db' AS other",
        "VACUUM INTO '/dev/shm/vh-edge-vacuum.db'",
        "VACUUM",
        "BEGIN IMMEDIATE",
        "SELECT crsql_config_set('merge-equal-values', 0) FROM t",
        "SELECT crsql_set_db_version(x'00112233445566778899aabbccddeeff', 99) FROM t",
        "SELECT crsql_begin_alter('t') FROM t",
        "SELECT crsql_as_crr('t') FROM t",
        "SELECT crsql_next_db_version() FROM t",
        "SELECT crsql_set_ts('12345') FROM t",
        "SELECT crsql_finalize() FROM t",
        "INSERT INTO crsql_changes (\"table\", pk, cid, val, col_version, db_version, site_id, cl, seq, ts) VALUES ('t', x'010901', 'a', 'w', 99, 99, x'00112233445566778899aabbccddeeff', 1, 0, '0')",
        "DELETE FROM __corro_bookkeeping_gaps",
        "INSERT INTO __corro_state (key, value) VALUES ('cluster_id', 9)",
        "UPDATE crsql_site_id SET site_id = x'ffffffffffffffffffffffffffffffff' WHERE ordinal = 0",
    ];
    let wrappers: Vec<(&str, Box<dyn Fn(&str) -> Option<Value>>)> = vec![
        ("plain", Box::new(|w: &str| Some(json!(w)))),
        ("after_select", Box::new(|w: &str| Some(json!(format!("SELECT id FROM t; {w}"))))),
        ("before_select", Box::new(|w: &str| Some(json!(format!("{w}; SELECT id FROM t"))))),
        ("trailing_comment", Box::new(|w: &str| Some(json!(format!("{w} -- SELECT id FROM t"))))),
        ("explain", Box::new(|w: &str| Some(json!(format!("EXPLAIN {w}"))))),
        ("cte", Box::new(|w: &str| if w.starts_with("INSERT") || w.starts_with("UPDATE") || w.starts_with("DELETE") || w.starts_with("REPLACE") { Some(json!(format!("WITH x AS (SELECT 1) {w}"))) } else { None })),
        ("returning", Box::new(|w: &str| if w.starts_with("INSERT INTO t") || w.starts_with("UPDATE t") || w.starts_with("DELETE FROM t") { Some(json!(format!("{w} RETURNING id"))) } else { None })),
        ("subselect_function", Box::new(|w: &str| if w.starts_with("SELECT crsql") { Some(json!(format!("SELECT id, ({}) FROM t", w.trim_end_matches(" FROM t").replace("SELECT ", "SELECT ").replacen("SELECT ", "SELECT ", 1)))) } else { None })),
        ("parameterised", Box::new(|w: &str| if w.starts_with("UPDATE t") { Some(json!(["UPDATE t SET a = ?", ["w"]])) } else if w.starts_with("SELECT crsql_config_set") { Some(json!(["SELECT crsql_config_set(?, ?) FROM t", ["merge-equal-values", 0]])) } else { None })),
    ];
    for configured in [false] {
        let mut live = start(&tpl, if configured { Some(TOKEN) } else { None });
        let addr = live.addr;
        let mut base = state_digest(&mut live);
        for endpoint in ["/v1/queries", "/v1/subscriptions"] {
            for w in &writes {
                for (wname, wrap) in &wrappers {
                    let Some(body) = wrap(w) else { continue };
                    let res = http(addr, "POST", endpoint, &[], &body.to_string());
                    evals += 1;
                    nontrivial += 1;
                    let status = res.as_ref().map(|r| r.0).unwrap_or(0);
                    // give a subscription that got created a moment to run its initial query
                    if endpoint == "/v1/subscriptions" && status == 200 {
                        std::thread::sleep(Duration::from_millis(60));
                    }
                    let now = state_digest(&mut live);
                    let subs_only = |f: &Vec<String>| f.iter().filter(|x| !x.starts_with("subscriptions")).cloned().collect::<Vec<_>>();
                    if now.0 != base.0 || subs_only(&now.1) != subs_only(&base.1) {
                        rep.violation(
                            &format!("C17:read-endpoint-changed-the-node:{endpoint}:{}", w.split_whitespace().take(2).collect::<Vec<_>>().join("-")),
                            json!({"endpoint": endpoint, "statement": body, "wrapper": wname, "status": status, "new_files": subs_only(&now.1)}),
                        );
                        base = now;
                    }
                    rep.outcome(digest(&(endpoint, status)));
                }
            }
        }
        let _ = std::fs::remove_file("/dev/shm/vh-edge-attached.db");
        let _ = std::fs::remove_file("/dev/shm/vh-edge-vacuum.db");
    }
    rep.set("states", evals);
    rep.set("transitions", evals);
    rep.set("evaluations", evals);
    rep.set("traces_validated_against_impl", evals);
    rep.set("exhaustive", true);
    rep.nontrivial_distinct_by_construction(nontrivial);
    rep.set("bounds", json!({"routes": routes.iter().map(|r| format!("{} {}", r.0, r.1)).collect::<Vec<_>>(), "methods": methods, "authorization_shapes": shapes.iter().map(|s| s.0).collect::<Vec<_>>(),
        "write_statements": writes.len(), "wrappers": wrappers.iter().map(|w| w.0).collect::<Vec<_>>()}));
    rep.assume("requests go through the real router and middleware (setup_http_api_handler) over TCP with hand-written HTTP/1.1, so header shapes are exactly as listed");
    rep.assume("a lowercase 'bearer' scheme with the exact token, and two Authorization headers of which one is exact, are not judged (the statement does not say which way they go)");
    rep.assume("statements outside the listed grammar are not covered; a subscription directory created by a successful SELECT subscription is not node database state");
    rep.require_nontrivial(100, "a request is non-trivial when it must be rejected (no exact token while one is configured) or carries a write statement to a read endpoint; distinct by construction");
    rep.finish();
}

fn main() {
    let cli = parse_cli();
    match cli.props.first().map(|s| s.as_str()) {
        Some("C17") => c17(&cli),
        _ => machinery_error("edge: --prop C16|C17"),
    }
}

//! E9 `edge`: configuration grids on live listeners.
//!  C17: the real API router + middleware (`setup_http_api_handler`) on a TCP listener; raw
//!       HTTP/1.1 requests for exact control of the Authorization header; statement grammar
//!       against the read endpoints.
//!  C16: see `c16`.

use klukai_types::api::Statement;
use klukai_types::config::AuthzConfig;
use serde_json::{Value, json};
use std::io::{Read, Write};
use std::time::{Duration, Instant};
use vh::vcore::*;
use vh::vnode::*;

const SCHEMA: &str = "CREATE TABLE t (id INTEGER PRIMARY KEY NOT NULL, a TEXT NOT NULL DEFAULT '', b TEXT);";
const TOKEN: &str = "s3cr3t-Token_42";

fn http(addr: std::net::SocketAddr, method: &str, path: &str, auth_headers: &[String], body: &str) -> Result<(u16, String), String> {
    let mut s = std::net::TcpStream::connect(addr).map_err(|e| e.to_string())?;
    s.set_read_timeout(Some(Duration::from_secs(3))).ok();
    let mut req = format!("{method} {path} HTTP/1.1\r\nHost: localhost\r\nConnection: close\r\nContent-Type: application/json\r\nContent-Length: {}\r\n", body.len());
    for h in auth_headers {
        req.push_str(h);
        req.push_str("\r\n");
    }
    req.push_str("\r\n");
    req.push_str(body);
    s.write_all(req.as_bytes()).map_err(|e| e.to_string())?;
    // read the head; streaming endpoints never close, so read until the header end or timeout
    let mut buf = vec![];
    let mut tmp = [0u8; 4096];
    let start = Instant::now();
    loop {
        match s.read(&mut tmp) {
            Ok(0) => break,
            Ok(n) => {
                buf.extend_from_slice(&tmp[..n]);
                if buf.windows(4).any(|w| w == b"\r\n\r\n") {
                    break;
                }
            }
            Err(_) => break,
        }
        if start.elapsed() > Duration::from_secs(3) {
            break;
        }
    }
    let text = String::from_utf8_lossy(&buf).to_string();
    let status = text.split_whitespace().nth(1).and_then(|s| s.parse::<u16>().ok()).ok_or_else(|| format!("no status in {:?}", text.chars().take(80).collect::<String>()))?;
    Ok((status, text))
}

struct Live {
    node: RtNode,
    addr: std::net::SocketAddr,
    _scratch: Scratch,
}

fn start(tpl: &Template, token: Option<&str>) -> Live {
    let s = Scratch::new("edge");
    let p = tpl.instantiate(&s.path().join("n"));
    let mut node = RtNode::open(&p, NodeOpts::default());
    let token = token.map(|t| t.to_string());
    let addr = node.run(async |nd| {
        if let Some(t) = token {
            let mut conf = (**nd.agent.config()).clone();
            conf.api.authorization = Some(AuthzConfig::BearerToken(t));
            nd.agent.set_config(conf);
        }
        let listener = tokio::net::TcpListener::bind("127.0.0.1:0").await.unwrap();
        let addr = listener.local_addr().unwrap();
        let subs_cache = std::sync::Arc::new(tokio::sync::RwLock::new(Default::default()));
        let upd_cache = Default::default();
        klukai_agent::agent::util::setup_http_api_handler(&nd.agent, &nd.tripwire, subs_cache, upd_cache, nd.agent.subs_manager(), vec![listener])
            .await
            .unwrap();
        rebaseline_settled().await;
        let (st, _b, _bc) = nd.write(vec![Statement::Simple("INSERT INTO t (id,a,b) VALUES (1,'x','y')".into())], None).await;
        assert_eq!(st, 200);
        rebaseline_settled().await;
        addr
    });
    Live { node, addr, _scratch: s }
}

/// everything a request could change
fn state_digest(l: &mut Live) -> (u64, Vec<String>) {
    let dir = l.node.db_path.parent().unwrap().to_path_buf();
    // a fresh connection each time: only what is in the database counts, not the state of a
    // pooled connection
    let d = {
        let conn = rusqlite::Connection::open_with_flags(&l.node.db_path, rusqlite::OpenFlags::SQLITE_OPEN_READ_ONLY).unwrap();
        let c = klukai_types::sqlite::CrConn::init(conn).unwrap();
        let c = &c;
        (
            dump_query(c, "SELECT type, name, sql FROM sqlite_schema ORDER BY name"),
            dump_query(c, "SELECT * FROM t ORDER BY 1"),
            dump_query(c, "SELECT \"table\", hex(pk), cid, val, col_version, db_version, seq, hex(site_id), cl FROM crsql_changes ORDER BY 1,2,3"),
            dump_query(c, "SELECT * FROM __corro_bookkeeping_gaps"),
            dump_query(c, "SELECT * FROM __corro_seq_bookkeeping"),
            dump_query(c, "SELECT * FROM __corro_buffered_changes"),
            dump_query(c, "SELECT * FROM __corro_schema ORDER BY 1,2,3"),
            dump_query(c, "SELECT key, value FROM __corro_state ORDER BY 1"),
            dump_query(c, "SELECT crsql_db_version()"),
            dump_query(c, "SELECT * FROM crsql_master ORDER BY 1"),
            dump_query(c, "SELECT hex(site_id), ordinal FROM crsql_site_id ORDER BY 2"),
            dump_query(c, "PRAGMA user_version"),
        )
    };
    let mut files = vec![];
    fn walk(p: &std::path::Path, base: &std::path::Path, out: &mut Vec<String>) {
        if let Ok(rd) = std::fs::read_dir(p) {
            for e in rd.flatten() {
                let path = e.path();
                if path.is_dir() {
                    out.push(format!("{}/", path.strip_prefix(base).unwrap().display()));
                    walk(&path, base, out);
                } else {
                    let n = path.strip_prefix(base).unwrap().display().to_string();
                    if !n.ends_with("-shm") && !n.ends_with("-wal") {
                        out.push(n);
                    }
                }
            }
        }
    }
    walk(&dir, &dir, &mut files);
    files.sort();
    (digest(&d), files)
}

fn c17(cli: &Cli) {
    let rep = Report::new("C17", cli.tier, cli.seed);
    sweep_stale_scratch();
    let tpl = Template::build(0, SCHEMA);
    let routes: Vec<(&str, &str, String)> = vec![
        ("POST", "/v1/transactions", json!(["INSERT INTO t (id,a,b) VALUES (99,'hacked','h')"]).to_string()),
        ("POST", "/v1/queries", json!("SELECT * FROM t").to_string()),
        ("POST", "/v1/subscriptions", json!("SELECT id, a FROM t").to_string()),
        ("POST", "/v1/updates/t", "".to_string()),
        ("GET", "/v1/subscriptions/00000000-0000-0000-0000-000000000000", "".to_string()),
        ("POST", "/v1/migrations", json!(["CREATE TABLE hacked (id INTEGER PRIMARY KEY NOT NULL)"]).to_string()),
        ("POST", "/v1/table_stats", json!({"tables": ["t"]}).to_string()),
    ];
    let methods = ["GET", "POST", "PUT", "DELETE"];
    // (name, headers, must_be_rejected_when_token_configured)
    let shapes: Vec<(&str, Vec<String>, Option<bool>)> = vec![
        ("none", vec![], Some(true)),
        ("basic", vec![format!("Authorization: Basic {TOKEN}")], Some(true)),
        ("bearer_wrong", vec!["Authorization: Bearer not-the-token".into()], Some(true)),
        ("bearer_prefix", vec![format!("Authorization: Bearer {}", &TOKEN[..TOKEN.len() - 1])], Some(true)),
        ("bearer_suffix", vec![format!("Authorization: Bearer {TOKEN}x")], Some(true)),
        ("bearer_token_other_case", vec![format!("Authorization: Bearer {}", TOKEN.to_uppercase())], Some(true)),
        ("bearer_empty", vec!["Authorization: Bearer ".into()], Some(true)),
        ("empty_header", vec!["Authorization: ".into()], Some(true)),
        ("two_wrong_headers", vec!["Authorization: Bearer a".into(), "Authorization: Bearer b".into()], Some(true)),
        ("token_without_scheme", vec![format!("Authorization: {TOKEN}")], Some(true)),
        ("token_in_other_header", vec![format!("X-Authorization: Bearer {TOKEN}")], Some(true)),
        // not judged: scheme case / duplicated headers where one is right
        ("lowercase_scheme_exact_token", vec![format!("Authorization: bearer {TOKEN}")], None),
        ("wrong_then_exact", vec!["Authorization: Bearer a".into(), format!("Authorization: Bearer {TOKEN}")], None),
        ("exact", vec![format!("Authorization: Bearer {TOKEN}")], Some(false)),
    ];
    let mut evals = 0u64;
    let mut nontrivial = 0u64;
    for configured in [true, false] {
        let mut live = start(&tpl, if configured { Some(TOKEN) } else { None });
        let addr = live.addr;
        let mut base = state_digest(&mut live);
        for (rmethod, path, body) in &routes {
            for method in methods {
                for (sname, headers, must_reject) in &shapes {
                    let res = http(addr, method, path, headers, body);
                    evals += 1;
                    let case = json!({"token_configured": configured, "method": method, "path": path, "authorization": sname});
                    let status = match res {
                        Ok((s, _)) => s,
                        Err(e) => {
                            rep.violation("C17:no-http-response", json!({"case": case, "err": e}));
                            continue;
                        }
                    };
                    let right_method = method == *rmethod;
                    if configured {
                        match must_reject {
                            Some(true) => {
                                nontrivial += 1;
                                if !(400..500).contains(&status) {
                                    rep.violation(&format!("C17:request-without-exact-token-not-rejected:{sname}"), json!({"case": case, "status": status}));
                                }
                                let now = state_digest(&mut live);
                                if now != base {
                                    rep.violation(&format!("C17:request-without-exact-token-performed-an-action:{sname}"), json!({"case": case, "status": status, "files": now.1}));
                                }
                            }
                            Some(false) => {
                                if status == 401 {
                                    rep.violation("C17:exact-token-rejected", json!({"case": case, "status": status}));
                                }
                                // an authorised request may act: let it finish, then take a new reference state
                                live.node.run(async |_nd| rebaseline_settled().await);
                                base = state_digest(&mut live);
                            }
                            None => {
                                live.node.run(async |_nd| rebaseline_settled().await);
                                base = state_digest(&mut live);
                            }
                        }
                    } else {
                        if status == 401 {
                            rep.violation("C17:route-closed-although-no-token-is-configured", json!({"case": case, "status": status}));
                        }
                        live.node.run(async |_nd| rebaseline_settled().await);
                    }
                    let _ = right_method;
                    rep.outcome(digest(&(configured, status, sname)));
                }
            }
        }
        // unknown path
        for (sname, headers, must_reject) in &shapes {
            let res = http(addr, "POST", "/v1/nope", headers, "{}");
            evals += 1;
            if let (Ok((status, _)), Some(true), true) = (&res, must_reject, configured) {
                if !(400..500).contains(status) {
                    rep.violation("C17:unknown-path-not-a-client-error", json!({"status": status, "authorization": sname}));
                }
            }
        }
        if evals % 2 == 0 {
            rep.sample(json!({"token_configured": configured, "request": "POST /v1/transactions", "authorization": "bearer_prefix"}));
        }
    }

    // ---- read endpoints cannot write
    let writes: Vec<&str> = vec![
        "INSERT INTO t (id,a,b) VALUES (50,'w','w')",
        "UPDATE t SET a='w'",
        "DELETE FROM t",
        "REPLACE INTO t (id,a,b) VALUES (1,'w','w')",
        "CREATE TABLE w1 (id INTEGER PRIMARY KEY NOT NULL)",
        "DROP TABLE t",
        "ALTER TABLE t ADD COLUMN z TEXT",
        "CREATE INDEX w_idx ON t (a)",
        "PRAGMA user_version = 7",
        "PRAGMA journal_mode = DELETE",
        "PRAGMA writable_schema = ON",
        "ATTACH DATABASE '/dev/shm/vh-edge-attached.db' AS other",
        "VACUUM INTO '/dev/shm/vh-edge-vacuum.db'",
        "VACUUM",
        "BEGIN IMMEDIATE",
        "SELECT crsql_config_set('merge-equal-values', 0) FROM t",
        "SELECT crsql_set_db_version(x'00112233445566778899aabbccddeeff', 99) FROM t",
        "SELECT crsql_begin_alter('t') FROM t",
        "SELECT crsql_as_crr('t') FROM t",
        "SELECT crsql_next_db_version() FROM t",
        "SELECT crsql_set_ts('12345') FROM t",
        "SELECT crsql_finalize() FROM t",
        "INSERT INTO crsql_changes (\"table\", pk, cid, val, col_version, db_version, site_id, cl, seq, ts) VALUES ('t', x'010901', 'a', 'w', 99, 99, x'00112233445566778899aabbccddeeff', 1, 0, '0')",
        "DELETE FROM __corro_bookkeeping_gaps",
        "INSERT INTO __corro_state (key, value) VALUES ('cluster_id', 9)",
        "UPDATE crsql_site_id SET site_id = x'ffffffffffffffffffffffffffffffff' WHERE ordinal = 0",
    ];
    let wrappers: Vec<(&str, Box<dyn Fn(&str) -> Option<Value>>)> = vec![
        ("plain", Box::new(|w: &str| Some(json!(w)))),
        ("after_select", Box::new(|w: &str| Some(json!(format!("SELECT id FROM t; {w}"))))),
        ("before_select", Box::new(|w: &str| Some(json!(format!("{w}; SELECT id FROM t"))))),
        ("trailing_comment", Box::new(|w: &str| Some(json!(format!("{w} -- SELECT id FROM t"))))),
        ("explain", Box::new(|w: &str| Some(json!(format!("EXPLAIN {w}"))))),
        ("cte", Box::new(|w: &str| if w.starts_with("INSERT") || w.starts_with("UPDATE") || w.starts_with("DELETE") || w.starts_with("REPLACE") { Some(json!(format!("WITH x AS (SELECT 1) {w}"))) } else { None })),
        ("returning", Box::new(|w: &str| if w.starts_with("INSERT INTO t") || w.starts_with("UPDATE t") || w.starts_with("DELETE FROM t") { Some(json!(format!("{w} RETURNING id"))) } else { None })),
        ("subselect_function", Box::new(|w: &str| if w.starts_with("SELECT crsql") { Some(json!(format!("SELECT id, ({}) FROM t", w.trim_end_matches(" FROM t").replace("SELECT ", "SELECT ").replacen("SELECT ", "SELECT ", 1)))) } else { None })),
        ("parameterised", Box::new(|w: &str| if w.starts_with("UPDATE t") { Some(json!(["UPDATE t SET a = ?", ["w"]])) } else if w.starts_with("SELECT crsql_config_set") { Some(json!(["SELECT crsql_config_set(?, ?) FROM t", ["merge-equal-values", 0]])) } else { None })),
    ];
    for configured in [false] {
        let mut live = start(&tpl, if configured { Some(TOKEN) } else { None });
        let addr = live.addr;
        let mut base = state_digest(&mut live);
        for endpoint in ["/v1/queries", "/v1/subscriptions"] {
            for w in &writes {
                for (wname, wrap) in &wrappers {
                    let Some(body) = wrap(w) else { continue };
                    let res = http(addr, "POST", endpoint, &[], &body.to_string());
                    evals += 1;
                    nontrivial += 1;
                    let status = res.as_ref().map(|r| r.0).unwrap_or(0);
                    // give a subscription that got created a moment to run its initial query
                    if endpoint == "/v1/subscriptions" && status == 200 {
                        std::thread::sleep(Duration::from_millis(60));
                    }
                    let now = state_digest(&mut live);
                    let subs_only = |f: &Vec<String>| f.iter().filter(|x| !x.starts_with("subscriptions")).cloned().collect::<Vec<_>>();
                    if now.0 != base.0 || subs_only(&now.1) != subs_only(&base.1) {
                        rep.violation(
                            &format!("C17:read-endpoint-changed-the-node:{endpoint}:{}", w.split_whitespace().take(2).collect::<Vec<_>>().join("-")),
                            json!({"endpoint": endpoint, "statement": body, "wrapper": wname, "status": status, "new_files": subs_only(&now.1)}),
                        );
                        base = now;
                    }
                    rep.outcome(digest(&(endpoint, status)));
                }
            }
        }
        let _ = std::fs::remove_file("/dev/shm/vh-edge-attached.db");
        let _ = std::fs::remove_file("/dev/shm/vh-edge-vacuum.db");
    }
    rep.set("states", evals);
    rep.set("transitions", evals);
    rep.set("evaluations", evals);
    rep.set("traces_validated_against_impl", evals);
    rep.set("exhaustive", true);
    rep.nontrivial_distinct_by_construction(nontrivial);
    rep.set("bounds", json!({"routes": routes.iter().map(|r| format!("{} {}", r.0, r.1)).collect::<Vec<_>>(), "methods": methods, "authorization_shapes": shapes.iter().map(|s| s.0).collect::<Vec<_>>(),
        "write_statements": writes.len(), "wrappers": wrappers.iter().map(|w| w.0).collect::<Vec<_>>()}));
    rep.assume("requests go through the real router and middleware (setup_http_api_handler) over TCP with hand-written HTTP/1.1, so header shapes are exactly as listed");
    rep.assume("a lowercase 'bearer' scheme with the exact token, and two Authorization headers of which one is exact, are not judged (the statement does not say which way they go)");
    rep.assume("statements outside the listed grammar are not covered; a subscription directory created by a successful SELECT subscription is not node database state");
    rep.require_nontrivial(100, "a request is non-trivial when it must be rejected (no exact token while one is configured) or carries a write statement to a read endpoint; distinct by construction");
    rep.finish();
}

// ------------------------------------------------------------------------------------------
// C16: cluster isolation, on full agents over loopback QUIC
// ------------------------------------------------------------------------------------------

use klukai_types::actor::{Actor, ActorId, ClusterId};
use klukai_types::broadcast::{BiPayload, BiPayloadV1, BroadcastV1, ChangeV1, UniPayload, UniPayloadV1};
use klukai_types::sync::{SyncMessage, SyncMessageV1, SyncRejectionV1, SyncTraceContextV1};
use speedy::Writable;

fn frame(payload: &[u8]) -> Vec<u8> {
    let mut v = (payload.len() as u32).to_be_bytes().to_vec();
    v.extend_from_slice(payload);
    v
}

/// declared: None = frame without the trailing cluster id (defaults to 0 at the receiver)
fn uni_frame(change: &ChangeV1, declared: Option<u16>) -> Vec<u8> {
    let p = UniPayload::V1 { data: UniPayloadV1::Broadcast(BroadcastV1::Change(change.clone())), cluster_id: ClusterId(declared.unwrap_or(0)) };
    let bytes = p.write_to_vec().unwrap();
    match declared {
        Some(_) => frame(&bytes),
        None => frame(&bytes[..bytes.len() - 2]),
    }
}

fn versions_of(idx: usize, n: u64, base: i64) -> Vec<ChangeV1> {
    let tpl = Template::build(idx, SCHEMA);
    let s = Scratch::new("c16w");
    let p = tpl.instantiate(&s.path().join("w"));
    let mut w = RtNode::open(&p, NodeOpts::default());
    let mut out = vec![];
    for i in 1..=n {
        let id = base + i as i64;
        let (st, _b, bc) = w.run(async |nd| nd.write(vec![Statement::Simple(format!("INSERT INTO t (id,a,b) VALUES ({id},'v','w')"))], None).await);
        assert_eq!(st, 200);
        out.push(bc[0].clone());
    }
    out
}

struct Full {
    agent: klukai_types::agent::Agent,
    bookie: klukai_types::agent::Bookie,
    transport: klukai_agent::transport::Transport,
    _tx: tokio::sync::mpsc::Sender<()>,
}

async fn start_full(tpl: &Template, dir: &std::path::Path, cluster: u16) -> Full {
    let db = tpl.instantiate(dir);
    {
        let c = rusqlite::Connection::open(&db).unwrap();
        c.execute("INSERT OR REPLACE INTO __corro_state (key, value) VALUES ('cluster_id', ?)", [cluster]).unwrap();
    }
    let conf = klukai_types::config::Config::builder()
        .db_path(db.display().to_string())
        .gossip_addr("127.0.0.1:0".parse().unwrap())
        .api_addr("127.0.0.1:0".parse().unwrap())
        .admin_path(dir.join("admin.sock").display().to_string())
        .build()
        .unwrap();
    let (tripwire, worker, tx) = klukai_types::tripwire::Tripwire::new_simple();
    tokio::spawn(worker);
    let (agent, bookie, transport, _handles) = klukai_agent::agent::start_with_config(conf, tripwire).await.expect("start agent");
    assert_eq!(agent.cluster_id(), ClusterId(cluster), "cluster id read from __corro_state");
    Full { agent, bookie, transport, _tx: tx }
}

async fn held(f: &Full, c: &ChangeV1) -> bool {
    let booked = f.bookie.read::<&str, _>("verif", None).await.get(&c.actor_id).cloned();
    match booked {
        Some(b) => b.read::<&str, _>("verif", None).await.contains_all(c.versions(), c.seqs()),
        None => false,
    }
}

async fn wait_held(f: &Full, c: &ChangeV1, max: Duration) -> bool {
    let start = Instant::now();
    while start.elapsed() < max {
        if held(f, c).await {
            return true;
        }
        tokio::time::sleep(Duration::from_millis(5)).await;
    }
    false
}

async fn new_transport() -> klukai_agent::transport::Transport {
    let conf = klukai_types::config::Config::builder()
        .db_path("/dev/shm/vh-unused.db".to_string())
        .gossip_addr("127.0.0.1:0".parse().unwrap())
        .api_addr("127.0.0.1:0".parse().unwrap())
        .build()
        .unwrap();
    let (rtt_tx, _rtt_rx) = tokio::sync::mpsc::channel(128);
    // keep the receiver alive for the lifetime of the process
    std::mem::forget(_rtt_rx);
    klukai_agent::transport::Transport::new(&conf.gossip, rtt_tx).await.unwrap()
}

/// first sync message the server sends for a SyncStart declaring `declared`, and whether
/// anything follows it
async fn sync_probe(t: &klukai_agent::transport::Transport, addr: std::net::SocketAddr, declared: u16) -> Result<(String, usize), String> {
    use tokio_util::codec::{FramedRead, LengthDelimitedCodec};
    let (mut tx, rx) = t.open_bi(addr).await.map_err(|e| e.to_string())?;
    let mut read = FramedRead::new(rx, LengthDelimitedCodec::builder().max_frame_length(100 * 1024 * 1024).new_codec());
    let start = BiPayload::V1 { data: BiPayloadV1::SyncStart { actor_id: ActorId::from_bytes([0x77; 16]), trace_ctx: SyncTraceContextV1::default() }, cluster_id: ClusterId(declared) };
    let clock = SyncMessage::V1(SyncMessageV1::Clock(klukai_types::broadcast::Timestamp::from(uhlc::HLC::default().new_timestamp())));
    let mut bytes = frame(&start.write_to_vec().unwrap());
    bytes.extend(frame(&clock.write_to_vec().unwrap()));
    tx.write_chunk(bytes.into()).await.map_err(|e| e.to_string())?;
    let first = match tokio::time::timeout(Duration::from_secs(5), klukai_agent::api::peer::read_sync_msg(&mut read)).await {
        Ok(Ok(Some(SyncMessage::V1(m)))) => match m {
            SyncMessageV1::Rejection(SyncRejectionV1::DifferentCluster) => "rejection:different-cluster".to_string(),
            SyncMessageV1::Rejection(r) => format!("rejection:{r:?}"),
            SyncMessageV1::State(_) => "state".to_string(),
            SyncMessageV1::Changeset(_) => "changeset".to_string(),
            SyncMessageV1::Clock(_) => "clock".to_string(),
            SyncMessageV1::Request(_) => "request".to_string(),
        },
        Ok(Ok(None)) => "closed".to_string(),
        Ok(Err(e)) => format!("error:{e}"),
        Err(_) => "timeout".to_string(),
    };
    // anything after it?
    let _ = tx.finish();
    let mut more = 0;
    if first.starts_with("rejection") {
        loop {
            match tokio::time::timeout(Duration::from_millis(400), klukai_agent::api::peer::read_sync_msg(&mut read)).await {
                Ok(Ok(Some(_))) => more += 1,
                _ => break,
            }
        }
    }
    Ok((first, more))
}

fn c16(cli: &Cli) {
    let rep = Report::new("C16", cli.tier, cli.seed);
    sweep_stale_scratch();
    let tpl = Template::build(3, SCHEMA);
    let foreign = versions_of(0, 60, 1000);
    let native = versions_of(1, 60, 2000);
    let rt = tokio::runtime::Builder::new_multi_thread().worker_threads(6).enable_all().build().unwrap();
    let scratch = Scratch::new("c16");
    let tier = cli.tier;
    let (evals, nontrivial) = rt.block_on(async {
        let mut evals = 0u64;
        let mut nontrivial = 0u64;
        let mut fi = 0usize; // next unused foreign version
        let mut ni = 0usize;
        // ---------------- broadcast path: receiver id x declared id x frame order
        for c_r in [0u16, 1, 2] {
            let r = start_full(&tpl, &scratch.path().join(format!("r{c_r}")), c_r).await;
            let addr = r.agent.gossip_addr();
            let t = new_transport().await;
            for declared in [None, Some(0u16), Some(1), Some(2)] {
                for foreign_first in [true, false] {
                    let f = &foreign[fi];
                    let n = &native[ni];
                    fi += 1;
                    ni += 1;
                    let ff = uni_frame(f, declared);
                    let nf = uni_frame(n, Some(c_r));
                    let mut stream = vec![];
                    if foreign_first {
                        stream.extend(ff);
                        stream.extend(nf);
                    } else {
                        stream.extend(nf);
                        stream.extend(ff);
                    }
                    t.send_uni(addr, stream.into()).await.expect("send uni");
                    evals += 1;
                    let case = json!({"path": "broadcast", "receiver_cluster": c_r, "declared": declared, "foreign_frame_first": foreign_first});
                    if !wait_held(&r, n, Duration::from_secs(8)).await {
                        rep.violation("C16:native-frame-in-the-same-stream-not-processed", json!({"case": case}));
                        continue;
                    }
                    // the handler forwards a stream's frames together; give the pipeline a moment
                    tokio::time::sleep(Duration::from_millis(60)).await;
                    let effective = declared.unwrap_or(0);
                    let got = held(&r, f).await;
                    if effective != c_r {
                        nontrivial += 1;
                        if got {
                            rep.violation("C16:change-from-another-cluster-applied:broadcast", json!({"case": case}));
                        }
                    } else if !wait_held(&r, f, Duration::from_secs(5)).await {
                        rep.violation("C16:same-cluster-change-not-applied", json!({"case": case}));
                    }
                    rep.outcome(digest(&(c_r, declared, got)));
                }
                // ---- sync served
                for declared_sync in [0u16, 1, 2] {
                    evals += 1;
                    match sync_probe(&t, addr, declared_sync).await {
                        Err(e) => rep.violation("C16:sync-probe-failed", json!({"err": e})),
                        Ok((first, more)) => {
                            let case = json!({"path": "sync-served", "receiver_cluster": c_r, "declared": declared_sync, "first_message": first, "messages_after": more});
                            if declared_sync != c_r {
                                nontrivial += 1;
                                if first != "rejection:different-cluster" {
                                    rep.violation("C16:sync-from-another-cluster-not-rejected", json!({"case": case}));
                                }
                                if more > 0 {
                                    rep.violation("C16:data-follows-the-cluster-rejection", json!({"case": case}));
                                }
                            } else if first != "state" {
                                rep.violation("C16:same-cluster-sync-not-served", json!({"case": case}));
                            }
                            rep.outcome(digest(&(c_r, declared_sync, first)));
                        }
                    }
                    if declared.is_some() {
                        break; // the sync grid does not depend on `declared`; run it fully once per receiver
                    }
                }
            }
            if c_r == 1 {
                // ---------------- run-time switch of the cluster id (what `cluster set-id` does)
                let f_old = &foreign[fi];
                let f_new = &foreign[fi + 1];
                let n_new = &native[ni];
                fi += 2;
                ni += 1;
                r.agent.set_cluster_id(ClusterId(2));
                // connection `t` was accepted while the node was in cluster 1
                t.send_uni(addr, uni_frame(f_old, Some(1)).into()).await.expect("send uni");
                evals += 1;
                nontrivial += 1;
                tokio::time::sleep(Duration::from_millis(700)).await;
                if held(&r, f_old).await {
                    rep.violation(
                        "C16:change-from-previous-cluster-applied-on-connection-opened-before-set-id",
                        json!({"case": {"path": "broadcast", "receiver_cluster_before": 1, "receiver_cluster_now": 2, "declared": 1, "connection": "opened before the switch"}}),
                    );
                }
                let t2 = new_transport().await;
                let mut stream = uni_frame(f_new, Some(1));
                stream.extend(uni_frame(n_new, Some(2)));
                t2.send_uni(addr, stream.into()).await.expect("send uni");
                evals += 1;
                nontrivial += 1;
                if !wait_held(&r, n_new, Duration::from_secs(8)).await {
                    rep.violation("C16:native-frame-not-processed-after-set-id", json!({}));
                }
                tokio::time::sleep(Duration::from_millis(60)).await;
                if held(&r, f_new).await {
                    rep.violation("C16:change-from-another-cluster-applied:broadcast-after-set-id", json!({"connection": "opened after the switch"}));
                }
                for declared_sync in [1u16, 2] {
                    evals += 1;
                    if let Ok((first, more)) = sync_probe(&t2, addr, declared_sync).await {
                        if declared_sync != 2 && (first != "rejection:different-cluster" || more > 0) {
                            rep.violation("C16:sync-from-previous-cluster-not-rejected-after-set-id", json!({"first": first, "more": more}));
                        }
                        if declared_sync == 2 && first != "state" {
                            rep.violation("C16:same-cluster-sync-not-served-after-set-id", json!({"first": first}));
                        }
                    }
                }
            }
        }
        // ---------------- who the node contacts: membership tables mixing clusters
        let r = start_full(&tpl, &scratch.path().join("rm"), 1).await;
        let mut listeners = vec![];
        let counters: Vec<std::sync::Arc<std::sync::atomic::AtomicU64>> = (0..3).map(|_| std::sync::Arc::new(std::sync::atomic::AtomicU64::new(0))).collect();
        for i in 0..3 {
            let conf = klukai_types::config::Config::builder()
                .db_path("/dev/shm/vh-unused.db".to_string())
                .gossip_addr("127.0.0.1:0".parse().unwrap())
                .api_addr("127.0.0.1:0".parse().unwrap())
                .build()
                .unwrap();
            let ep = klukai_agent::api::peer::gossip_server_endpoint(&conf.gossip).await.unwrap();
            let addr = ep.local_addr().unwrap();
            let ctr = counters[i].clone();
            tokio::spawn(async move {
                while let Some(connecting) = ep.accept().await {
                    let ctr = ctr.clone();
                    tokio::spawn(async move {
                        if let Ok(conn) = connecting.await {
                            ctr.fetch_add(1, std::sync::atomic::Ordering::SeqCst);
                            loop {
                                tokio::select! {
                                    u = conn.accept_uni() => { if u.is_err() { break; } ctr.fetch_add(1, std::sync::atomic::Ordering::SeqCst); }
                                    b = conn.accept_bi() => { if b.is_err() { break; } ctr.fetch_add(1, std::sync::atomic::Ordering::SeqCst); }
                                    d = conn.read_datagram() => { if d.is_err() { break; } ctr.fetch_add(1, std::sync::atomic::Ordering::SeqCst); }
                                }
                            }
                        }
                    });
                }
            });
            listeners.push(addr);
        }
        let assignments: Vec<[bool; 3]> = (0..8u8).map(|m| [m & 1 != 0, m & 2 != 0, m & 4 != 0]).collect();
        let assignments: Vec<[bool; 3]> = if tier == Tier::Quick { assignments.into_iter().filter(|a| [[true, false, true], [false, true, false], [false, false, false], [true, true, false]].contains(a)).collect() } else { assignments };
        let mut wid = 5000;
        // each table is built directly, and also by renewal: every member first announced itself in
        // cluster 1 (resp. 2) and then again - same id and address, newer identity - in its final cluster
        let cases: Vec<(usize, [bool; 3], Option<u16>)> =
            assignments.iter().enumerate().flat_map(|(ai, own)| [None, Some(1u16), Some(2u16)].into_iter().map(move |prev| (ai, *own, prev))).collect();
        for (ci, (ai, own, prev)) in cases.iter().enumerate() {
            let (ai, own) = (*ai, own);
            {
                let mut m = r.agent.members().write();
                m.states.clear();
                m.by_addr.clear();
                m.rtts.clear();
                for i in 0..3 {
                    let id = ActorId::from_bytes([0x30 + i as u8 + (ai as u8) * 4 + (ci % 3) as u8 * 0x40; 16]);
                    if let Some(prev) = prev {
                        let former = Actor::new(id, listeners[i], klukai_types::broadcast::Timestamp::from(uhlc::HLC::default().new_timestamp()), ClusterId(*prev));
                        m.add_member(&former);
                        std::thread::sleep(Duration::from_millis(2));
                    }
                    let actor = Actor::new(
                        id,
                        listeners[i],
                        klukai_types::broadcast::Timestamp::from(uhlc::HLC::default().new_timestamp()),
                        ClusterId(if own[i] { 1 } else { 2 }),
                    );
                    m.add_member(&actor);
                    // peers 0 and 1 are close (ring 0), peer 2 is not
                    if i < 2 {
                        m.add_rtt(listeners[i], Duration::from_millis(1));
                    }
                }
            }
            let before: Vec<u64> = counters.iter().map(|c| c.load(std::sync::atomic::Ordering::SeqCst)).collect();
            wid += 1;
            let (st, _b) = klukai_agent::api::public::api_v1_transactions(
                axum::Extension(r.agent.clone()),
                axum::extract::Query(klukai_agent::api::public::TimeoutParams { timeout: None }),
                axum::extract::Json(vec![Statement::Simple(format!("INSERT INTO t (id,a,b) VALUES ({wid},'m','m')"))]),
            )
            .await;
            assert!(st.is_success());
            tokio::time::sleep(Duration::from_millis(1500)).await;
            let _ = klukai_agent::verif::handle_sync(&r.agent, &r.bookie, &r.transport).await;
            tokio::time::sleep(Duration::from_millis(300)).await;
            // the expected contact of a same-cluster member is waited for (a slow machine must not
            // turn into an alarm); the forbidden contacts are judged on whatever happened until then
            if own.iter().any(|o| *o) {
                let start = Instant::now();
                while start.elapsed() < Duration::from_secs(10) {
                    let now: Vec<u64> = counters.iter().map(|c| c.load(std::sync::atomic::Ordering::SeqCst)).collect();
                    if (0..3).any(|i| own[i] && now[i] > before[i]) {
                        break;
                    }
                    tokio::time::sleep(Duration::from_millis(20)).await;
                }
            }
            let after: Vec<u64> = counters.iter().map(|c| c.load(std::sync::atomic::Ordering::SeqCst)).collect();
            evals += 1;
            for i in 0..3 {
                let contacted = after[i] > before[i];
                if !own[i] {
                    nontrivial += 1;
                    if contacted {
                        rep.violation(
                            "C16:node-contacted-a-member-of-another-cluster",
                            json!({"assignment(own cluster?)": own, "formerly_announced_cluster": prev, "peer": i, "streams": after[i] - before[i]}),
                        );
                    }
                }
            }
            if own.iter().any(|o| *o) && !(0..3).any(|i| own[i] && after[i] > before[i]) {
                rep.violation("C16:no-same-cluster-member-contacted", json!({"assignment(own cluster?)": own, "formerly_announced_cluster": prev}));
            }
            rep.outcome(digest(&(own, prev, after.iter().zip(before.iter()).map(|(a, b)| a > b).collect::<Vec<_>>())));
            if ci == 4 {
                rep.sample(json!({"membership": own, "formerly_announced_cluster": prev, "streams_per_listener": after.iter().zip(before.iter()).map(|(a, b)| a - b).collect::<Vec<_>>()}));
            }
        }
        (evals, nontrivial)
    });
    rt.shutdown_timeout(Duration::from_secs(5));
    rep.set("states", evals);
    rep.set("transitions", evals);
    rep.set("evaluations", evals);
    rep.set("traces_validated_against_impl", evals);
    rep.set("exhaustive", true);
    rep.nontrivial_distinct_by_construction(nontrivial);
    rep.sample(json!({"path": "broadcast", "receiver_cluster": 1, "declared": null, "meaning": "frame ends before the cluster id; the receiver defaults it to 0"}));
    rep.set("bounds", json!({"receiver_cluster_ids": [0, 1, 2], "declared": ["absent", 0, 1, 2], "frame_orders": 2, "sync_declared": [0, 1, 2],
        "run_time_switch": "1 -> 2 with frames on a connection opened before and on one opened after", "membership_assignments": tier.pick(4, 8), "membership_built": ["directly", "by renewal from cluster 1", "by renewal from cluster 2"]}));
    rep.assume("full agents started through start_with_config over loopback QUIC (plaintext); a native frame in the same stream proves the stream was processed; negative observations on the pre-switch connection wait 700 ms");
    rep.assume("SWIM datagrams (foca) and TLS mode are not exercised");
    rep.require_nontrivial(20, "a case is non-trivial when the sender's effective cluster id differs from the receiver's (or the peer is in another cluster)");
    rep.finish();
}

fn main() {
    let cli = parse_cli();
    match cli.props.first().map(|s| s.as_str()) {
        Some("C17") => c17(&cli),
        Some("C16") => c16(&cli),
        _ => machinery_error("edge: --prop C16|C17"),
    }
}

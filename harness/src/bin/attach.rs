//! E7-b `attach` (C12): gated schedule exploration of a subscriber attaching / resuming while
//! changes are being produced. Real code on every side: the matcher's `handle_candidates` (parked
//! at its sent / marked / before-commit / committed points), the real `process_sub_channel`
//! forwarder (fed one event at a time by the harness) and the real `catch_up_sub` (parked at its
//! start / snapshot-done / checked / before-live points). Stateless DFS over all interleavings.

use bytes::Bytes;
use klukai_agent::api::public::pubsub::{SubParams, catch_up_sub, process_sub_channel};
use klukai_types::api::{QueryEvent, QueryEventMeta, SqliteValue, Statement, TableName};
use klukai_types::pubsub::{MatchCandidates, pack_columns};
use klukai_types::updates::Handle;
use serde_json::{Value, json};
use std::collections::{BTreeMap, HashMap};
use std::sync::Mutex;
use std::sync::atomic::{AtomicBool, AtomicU64, Ordering::SeqCst};
use std::time::{Duration, Instant};
use vh::vcore::*;
use vh::vnode::*;

const SCHEMA: &str = "CREATE TABLE t (id INTEGER PRIMARY KEY NOT NULL, a TEXT NOT NULL DEFAULT '');";
const QUERY: &str = "SELECT id, a FROM t";

// ---------------------------------------------------------------- gate
static GATING: AtomicBool = AtomicBool::new(false);
static PARKED: Mutex<Option<HashMap<&'static str, String>>> = Mutex::new(None);
static RELEASE_M: AtomicBool = AtomicBool::new(false);
static RELEASE_C: AtomicBool = AtomicBool::new(false);
static GEN_M: AtomicU64 = AtomicU64::new(0);
static GEN_C: AtomicU64 = AtomicU64::new(0);
static SENT: AtomicU64 = AtomicU64::new(0);
static DIVERGED: AtomicU64 = AtomicU64::new(0);

fn install_gate() {
    *PARKED.lock().unwrap() = Some(HashMap::new());
    klukai_types::verif::set_point_handler(Some(std::sync::Arc::new(|name: &str, _detail: &str| {
        let (actor, rel, genr): (&'static str, &AtomicBool, &AtomicU64) = if name.starts_with("matcher.") {
            ("M", &RELEASE_M, &GEN_M)
        } else if name.starts_with("catchup.") {
            ("C", &RELEASE_C, &GEN_C)
        } else {
            return;
        };
        if name == "matcher.sent" {
            SENT.fetch_add(1, SeqCst);
        }
        if !GATING.load(SeqCst) {
            return;
        }
        if std::env::var("ATT_DEBUG").is_ok() {
            eprintln!("{:?} point {name} reached", Instant::now());
        }
        PARKED.lock().unwrap().as_mut().unwrap().insert(actor, name.to_string());
        genr.fetch_add(1, SeqCst);
        let start = Instant::now();
        // park with block_in_place: a worker blocked without handing off its core can be the one
        // that would otherwise poll the runtime's timers, wedging everybody else
        tokio::task::block_in_place(|| {
            while !rel.swap(false, SeqCst) {
                std::thread::sleep(Duration::from_micros(100));
                if !GATING.load(SeqCst) || start.elapsed() > Duration::from_secs(30) {
                    break;
                }
            }
        });
        PARKED.lock().unwrap().as_mut().unwrap().remove(actor);
        if std::env::var("ATT_DEBUG").is_ok() {
            eprintln!("{:?} point {name} left after {:?}", Instant::now(), start.elapsed());
        }
    })));
}

fn parked(actor: &str) -> Option<String> {
    PARKED.lock().unwrap().as_ref().unwrap().get(actor).cloned()
}

fn batch_done_count(id: &str) -> usize {
    vh::vnode::emit_count("matcher.batch_done.big", id)
}

#[derive(Clone, Debug, serde::Serialize, serde::Deserialize)]
struct Case {
    /// committed events before the gated batch
    pre: u64,
    /// events in the gated batch
    n: u64,
    /// None = attach from scratch; Some(k) = resume after change id k
    from: Option<u64>,
    skip_rows: bool,
}

#[derive(Clone, Debug, PartialEq, serde::Serialize, serde::Deserialize)]
enum Act {
    M,
    P,
    C,
}

struct RunOut {
    widths: Vec<usize>,
    acts: Vec<(Act, String)>,
    violations: Vec<(String, Value)>,
    stream: Vec<String>,
}

fn barrier_cand() -> MatchCandidates {
    let mut cand = MatchCandidates::new();
    let mut keys = indexmap::IndexMap::new();
    for i in 0..1000i64 {
        keys.insert(pack_columns(&[SqliteValue::Integer(9_000_000 + i)]).unwrap(), 1i64);
    }
    cand.insert(TableName("t".into()), keys);
    cand
}

fn meta_str(m: &QueryEventMeta) -> String {
    match m {
        QueryEventMeta::Columns => "columns".into(),
        QueryEventMeta::Row(r) => format!("row:{}", r.0),
        QueryEventMeta::EndOfQuery(c) => format!("eoq:{}", c.map(|c| c.0 as i64).unwrap_or(-1)),
        QueryEventMeta::Change(c) => format!("change:{}", c.0),
        QueryEventMeta::Error => "error".into(),
        QueryEventMeta::Notify => "notify".into(),
    }
}

/// A local write whose candidates have reached the matcher: the transaction's broadcast task is a
/// counted task, so "only the matcher is still counted" means it has handed them over.
async fn write_and_hand_over(nd: &mut Node, sql: String) {
    let (st, _b) = klukai_agent::api::public::api_v1_transactions(
        axum::Extension(nd.agent.clone()),
        axum::extract::Query(klukai_agent::api::public::TimeoutParams { timeout: None }),
        axum::extract::Json(vec![Statement::Simple(sql)]),
    )
    .await;
    if !st.is_success() {
        machinery_error("write failed");
    }
    let start = Instant::now();
    while klukai_types::spawn::PENDING_HANDLES.load(SeqCst) > 1 {
        tokio::time::sleep(Duration::from_micros(200)).await;
        if start.elapsed() > Duration::from_secs(20) {
            machinery_error("broadcast task did not finish");
        }
    }
    nd.drain_bcast();
}

fn run_schedule(tpl: &Template, case: &Case, prefix: &[usize]) -> RunOut {
    let s = Scratch::new("att");
    let p = tpl.instantiate(&s.path().join("n"));
    GATING.store(false, SeqCst);
    RELEASE_M.store(false, SeqCst);
    RELEASE_C.store(false, SeqCst);
    PARKED.lock().unwrap().as_mut().unwrap().clear();
    let rt = tokio::runtime::Builder::new_multi_thread().worker_threads(8).disable_lifo_slot().enable_all().build().unwrap();
    let case = case.clone();
    let prefix = prefix.to_vec();
    let out = rt.block_on(async move {
        let mut nd = Node::open(&p, NodeOpts::default()).await;
        let mut out = RunOut { widths: vec![], acts: vec![], violations: vec![], stream: vec![] };
        // rows the batches will update
        // one row more than the gated batch touches: the ungated follow-up change updates that row,
        // so it cannot paper over a lost change of the batch
        let nrows = case.n.max(1) + 1;
        let ins: Vec<Statement> = (1..=nrows).map(|i| Statement::Simple(format!("INSERT INTO t (id,a) VALUES ({i},'r{i}')"))).collect();
        let (st, _b, _bc) = nd.write(ins, None).await;
        assert_eq!(st, 200);
        // the subscription, its real forwarder fed through a harness pump
        let subs_path = nd.agent.config().db.subscriptions_path();
        let schema = nd.agent.schema().read().clone();
        let (handle, created) = nd.agent.subs_manager().get_or_insert(QUERY, subs_path.as_path(), &schema, nd.agent.pool(), nd.tripwire.clone()).expect("create sub");
        let mut evt_rx = created.unwrap().evt_rx;
        let (sub_tx, mut monitor) = tokio::sync::broadcast::channel::<(Bytes, QueryEventMeta)>(10240);
        let (fwd_tx, fwd_rx) = tokio::sync::mpsc::channel::<QueryEvent>(512);
        tokio::spawn(process_sub_channel(nd.agent.subs_manager().clone(), handle.id(), sub_tx.clone(), fwd_rx));
        let id = handle.id().to_string();
        // pump one event and wait until the forwarder broadcast it
        async fn pump(evt_rx: &mut tokio::sync::mpsc::Receiver<QueryEvent>, fwd_tx: &tokio::sync::mpsc::Sender<QueryEvent>, monitor: &mut tokio::sync::broadcast::Receiver<(Bytes, QueryEventMeta)>, wait: Duration) -> Option<QueryEventMeta> {
            let ev = match tokio::time::timeout(wait, evt_rx.recv()).await {
                Ok(Some(ev)) => ev,
                _ => return None,
            };
            let meta = ev.meta();
            fwd_tx.send(ev).await.ok()?;
            match tokio::time::timeout(Duration::from_secs(10), monitor.recv()).await {
                Ok(Ok((_b, m))) => Some(m),
                _ => machinery_error("forwarder did not broadcast a pumped event"),
            }
            .or(Some(meta))
        }
        // initial snapshot events
        loop {
            match pump(&mut evt_rx, &fwd_tx, &mut monitor, Duration::from_secs(20)).await {
                Some(QueryEventMeta::EndOfQuery(_)) => break,
                Some(_) => {}
                None => machinery_error("initial query events missing"),
            }
        }
        rebaseline_settled().await;
        // committed events before the gated batch
        for k in 0..case.pre {
            let before = batch_done_count(&id);
            write_and_hand_over(&mut nd, format!("UPDATE t SET a = a || 'p{k}' WHERE id = 1")).await;
            handle.changes_tx().send(barrier_cand()).await.unwrap();
            let start = Instant::now();
            while batch_done_count(&id) == before {
                tokio::time::sleep(Duration::from_micros(300)).await;
                if start.elapsed() > Duration::from_secs(20) {
                    machinery_error("matcher did not process a pre batch");
                }
            }
            while pump(&mut evt_rx, &fwd_tx, &mut monitor, Duration::from_millis(1)).await.is_some() {}
        }
        // ---- the gated batch
        SENT.store(0, SeqCst);
        GATING.store(true, SeqCst);
        let done_before = batch_done_count(&id);
        let gen_m0 = GEN_M.load(SeqCst);
        write_and_hand_over(&mut nd, format!("UPDATE t SET a = a || '+' WHERE id <= {}", case.n)).await;
        handle.changes_tx().send(barrier_cand()).await.unwrap();
        let start = Instant::now();
        while GEN_M.load(SeqCst) == gen_m0 {
            tokio::time::sleep(Duration::from_micros(200)).await;
            if start.elapsed() > Duration::from_secs(20) {
                machinery_error("matcher never reached its first scheduling point");
            }
        }
        let mut forwarded = 0u64;
        let mut m_done = false;
        let mut c_state = 0; // 0 not attached, 1 attached (parked or running), 2 done
        let mut c_last = String::new();
        let mut sub_rx_out: Option<tokio::sync::mpsc::Receiver<(Bytes, QueryEventMeta)>> = None;
        let mut step = 0;
        loop {
            // enabled actors in the order that makes choice 0 the non-preemptive one: the actor
            // that ran last (if it can go on), then forwarder, subscriber, matcher. Departures from
            // choice 0 are therefore preemptions (or a pick other than the default at a free switch)
            let mut enabled: Vec<Act> = vec![];
            if SENT.load(SeqCst) > forwarded {
                enabled.push(Act::P);
            }
            if c_state == 0 || (c_state == 1 && parked("C").is_some()) {
                enabled.push(Act::C);
            }
            if !m_done && parked("M").is_some() {
                enabled.push(Act::M);
            }
            if let Some((last, _)) = out.acts.last() {
                if let Some(pos) = enabled.iter().position(|a| a == last) {
                    let a = enabled.remove(pos);
                    enabled.insert(0, a);
                }
            }
            if enabled.is_empty() {
                if m_done && c_state == 2 {
                    break;
                }
                // something is running free (e.g. catch-up retry sleeps): wait for it to park or end
                tokio::time::sleep(Duration::from_millis(5)).await;
                step += 1;
                if step > 2000 {
                    out.violations.push(("C12:schedule-stuck".into(), json!({"acts": format!("{:?}", out.acts)})));
                    break;
                }
                if c_state == 1 && parked("C").is_none() && sub_rx_out.as_ref().map(|r| r.is_closed()).unwrap_or(false) {
                    c_state = 2;
                }
                continue;
            }
            let k = out.widths.len();
            let choice = if k < prefix.len() { prefix[k] } else { 0 };
            let choice = if choice >= enabled.len() {
                // the recorded prefix cannot be followed here (some hand-over finer than the
                // scheduling points went the other way): still a real execution, judged as such
                DIVERGED.fetch_add(1, SeqCst);
                choice % enabled.len()
            } else {
                choice
            };
            out.widths.push(enabled.len());
            let act = enabled[choice].clone();
            match act {
                Act::M => {
                    let at = parked("M").unwrap_or_default();
                    out.acts.push((Act::M, at));
                    let g = GEN_M.load(SeqCst);
                    RELEASE_M.store(true, SeqCst);
                    let start = Instant::now();
                    loop {
                        if GEN_M.load(SeqCst) != g {
                            break;
                        }
                        if batch_done_count(&id) > done_before {
                            m_done = true;
                            break;
                        }
                        tokio::time::sleep(Duration::from_micros(200)).await;
                        if start.elapsed() > Duration::from_secs(20) {
                            machinery_error("matcher neither parked nor finished");
                        }
                    }
                }
                Act::P => {
                    // while the subscriber is catching up, a task of its own moves broadcast events
                    // into its buffer; that hand-over is not a scheduling point, so wait for it
                    // (emit hook) - otherwise what the subscriber finds in its buffer next is a race
                    let buffering = c_state == 1 && matches!(parked("C").as_deref(), Some("catchup.start" | "catchup.rows_done" | "catchup.snapshot_done" | "catchup.retry" | "catchup.checked"));
                    let enq_before: Vec<usize> = (0..16u64).map(|k| vh::vnode::emit_count("catchup.enqueued", &k.to_string())).collect();
                    let m = pump(&mut evt_rx, &fwd_tx, &mut monitor, Duration::from_secs(5)).await;
                    if let (true, Some(QueryEventMeta::Change(id))) = (buffering, m.as_ref()) {
                        let k = id.0 as usize;
                        let start = Instant::now();
                        while k < 16 && vh::vnode::emit_count("catchup.enqueued", &k.to_string()) == enq_before[k] {
                            tokio::time::sleep(Duration::from_micros(200)).await;
                            if start.elapsed() > Duration::from_secs(10) {
                                machinery_error("the catching-up subscriber did not buffer a broadcast event");
                            }
                        }
                    }
                    forwarded += 1;
                    out.acts.push((Act::P, m.map(|m| meta_str(&m)).unwrap_or_default()));
                }
                Act::C => {
                    if c_state == 0 {
                        let params: SubParams = serde_json::from_value(json!({"from": case.from, "skip_rows": case.skip_rows})).unwrap();
                        let (tx, rx) = tokio::sync::mpsc::channel(10240);
                        sub_rx_out = Some(rx);
                        let g = GEN_C.load(SeqCst);
                        tokio::spawn(catch_up_sub(handle.clone(), params, sub_tx.subscribe(), tx));
                        out.acts.push((Act::C, "attach".into()));
                        c_state = 1;
                        let start = Instant::now();
                        while GEN_C.load(SeqCst) == g {
                            tokio::time::sleep(Duration::from_micros(200)).await;
                            if start.elapsed() > Duration::from_secs(10) {
                                machinery_error("catch-up never reached its first scheduling point");
                            }
                        }
                    } else {
                        let at = parked("C").unwrap_or_default();
                        out.acts.push((Act::C, at.clone()));
                        c_last = at.clone();
                        let g = GEN_C.load(SeqCst);
                        RELEASE_C.store(true, SeqCst);
                        if at == "catchup.before_live" {
                            c_state = 2;
                        } else {
                            // wait until it parks again (every retry of the catch-up loop is a
                            // scheduling point of its own) or returns early, which closes the
                            // subscriber's channel
                            let start = Instant::now();
                            loop {
                                if GEN_C.load(SeqCst) != g {
                                    break;
                                }
                                if sub_rx_out.as_ref().map(|r| r.is_closed()).unwrap_or(false) && parked("C").is_none() {
                                    c_state = 2;
                                    break;
                                }
                                if start.elapsed() > Duration::from_secs(20) {
                                    machinery_error("catch-up neither parked nor returned");
                                }
                                tokio::time::sleep(Duration::from_micros(200)).await;
                            }
                        }
                    }
                }
            }
            step += 1;
        }
        let _ = c_last;
        GATING.store(false, SeqCst);
        RELEASE_M.store(true, SeqCst);
        RELEASE_C.store(true, SeqCst);
        // ---- a follow-up change, produced and forwarded without gates
        let before = batch_done_count(&id);
        write_and_hand_over(&mut nd, format!("UPDATE t SET a = a || '!' WHERE id = {nrows}")).await;
        handle.changes_tx().send(barrier_cand()).await.unwrap();
        let start = Instant::now();
        while batch_done_count(&id) == before {
            tokio::time::sleep(Duration::from_micros(300)).await;
            if start.elapsed() > Duration::from_secs(20) {
                machinery_error("matcher did not process the follow-up batch");
            }
        }
        while pump(&mut evt_rx, &fwd_tx, &mut monitor, Duration::from_millis(2)).await.is_some() {}
        // read the subscriber's stream until it has the last change produced, ended with an error, or
        // closed; a stream that is still live but silent is given 12 s before it is judged behind
        let total_changes = case.pre + case.n + 1;
        let mut rx = sub_rx_out.take().unwrap();
        let mut stream: Vec<(QueryEventMeta, Bytes)> = vec![];
        let mut closed = false;
        let settle = Instant::now();
        loop {
            match rx.try_recv() {
                Ok((b, m)) => stream.push((m, b)),
                Err(tokio::sync::mpsc::error::TryRecvError::Empty) => {
                    let done = stream.iter().any(|(m, _)| matches!(m, QueryEventMeta::Error) || matches!(m, QueryEventMeta::Change(c) if c.0 >= total_changes) || matches!(m, QueryEventMeta::EndOfQuery(Some(c)) if c.0 >= total_changes));
                    if done {
                        // whatever trails the last expected event
                        tokio::time::sleep(Duration::from_millis(10)).await;
                        while let Ok((b, m)) = rx.try_recv() {
                            stream.push((m, b));
                        }
                        break;
                    }
                    if settle.elapsed() > Duration::from_secs(12) {
                        break;
                    }
                    tokio::time::sleep(Duration::from_millis(1)).await;
                }
                Err(tokio::sync::mpsc::error::TryRecvError::Disconnected) => {
                    closed = true;
                    break;
                }
            }
        }
        out.stream = stream.iter().map(|(m, _)| meta_str(m)).collect();
        if closed {
            out.stream.push("closed".into());
        }
        // ---- oracle
        let total = case.pre + case.n + 1;
        let mut last: Option<u64> = case.from;
        let mut rows: BTreeMap<u64, Vec<String>> = BTreeMap::new();
        let mut ended_with_error = false;
        let mut gap = None;
        for (m, b) in &stream {
            match m {
                QueryEventMeta::Row(r) => {
                    if let Ok(QueryEvent::Row(_, cells)) = serde_json::from_slice::<QueryEvent>(b) {
                        rows.insert(r.0, cells.iter().map(|c| format!("{c:?}")).collect());
                    }
                }
                QueryEventMeta::EndOfQuery(Some(c)) => last = Some(c.0),
                QueryEventMeta::Change(c) => {
                    if ended_with_error {
                        continue;
                    }
                    match last {
                        Some(l) if c.0 == l + 1 => {}
                        Some(l) if c.0 <= l => {
                            gap = Some(format!("change {} repeated or out of order after {}", c.0, l));
                        }
                        Some(l) => {
                            gap = Some(format!("change {} follows {}: {} skipped", c.0, l, c.0 - l - 1));
                        }
                        None => {} // skip_rows: the start is not announced
                    }
                    last = Some(c.0);
                    if let Ok(QueryEvent::Change(ty, rowid, cells, _)) = serde_json::from_slice::<QueryEvent>(b) {
                        match ty {
                            klukai_types::api::sqlite::ChangeType::Delete => {
                                rows.remove(&rowid.0);
                            }
                            _ => {
                                rows.insert(rowid.0, cells.iter().map(|c| format!("{c:?}")).collect());
                            }
                        }
                    }
                }
                QueryEventMeta::Error => ended_with_error = true,
                _ => {}
            }
        }
        if let Some(g) = gap {
            let key = if g.contains("skipped") { "C12:stream-continues-past-a-gap" } else { "C12:change-delivered-twice-or-out-of-order" };
            out.violations.push((key.into(), json!({"msg": g, "stream": out.stream, "schedule": format!("{:?}", out.acts)})));
        } else if !ended_with_error && !closed {
            // still live: it must have everything up to the last change
            if let Some(l) = last {
                if l != total {
                    out.violations.push((
                        "C12:live-stream-silently-behind".into(),
                        json!({"last_received": l, "last_produced": total, "stream": out.stream, "schedule": format!("{:?}", out.acts)}),
                    ));
                }
            }
            if case.from.is_none() && !case.skip_rows {
                let want = nd.read(|c| dump_query(c, QUERY)).await;
                let mut got: Vec<Vec<String>> = rows.values().cloned().collect();
                got.sort();
                let mut want2: Vec<Vec<String>> = want.iter().map(|r| r.iter().map(|c| if let Some(t) = c.strip_prefix("t:") { format!("Text({t:?})") } else { format!("Integer({})", c.trim_start_matches("i:")) }).collect()).collect();
                want2.sort();
                if got != want2 {
                    out.violations.push((
                        "C12:snapshot-plus-events-differ-from-query-result".into(),
                        json!({"replayed": got, "query": want2, "stream": out.stream, "schedule": format!("{:?}", out.acts)}),
                    ));
                }
            }
        }
        nd.agent.subs_manager().drop_handles().await;
        out
    });
    rt.shutdown_timeout(Duration::from_secs(5));
    out
}

// ------------------------------------------------------------------------------------------
// the client library: every short change-id sequence streamed into SubscriptionStream
// ------------------------------------------------------------------------------------------

#[derive(Clone, Debug, serde::Serialize, serde::Deserialize)]
enum Fr {
    Columns,
    Row,
    Eoq(u64),
    /// a change event; `bad` = its cells do not deserialize into the subscriber's row type
    Change { id: u64, bad: bool },
    /// the connection breaks here (the client reconnects and resumes)
    Abort,
}

fn fr_line(f: &Fr) -> String {
    use klukai_types::api::sqlite::ChangeType;
    use klukai_types::api::{ChangeId, RowId};
    let e: QueryEvent = match f {
        Fr::Columns => QueryEvent::Columns(vec!["id".into()]),
        Fr::Row => QueryEvent::Row(RowId(1), vec![SqliteValue::Integer(7)]),
        Fr::Eoq(c) => QueryEvent::EndOfQuery { time: 0.0, change_id: Some(ChangeId(*c)) },
        Fr::Change { id, bad } => QueryEvent::Change(
            ChangeType::Update,
            RowId(1),
            vec![if *bad { SqliteValue::Text("not a number".into()) } else { SqliteValue::Integer(*id as i64) }],
            ChangeId(*id),
        ),
        Fr::Abort => unreachable!(),
    };
    serde_json::to_string(&e).unwrap()
}

/// One scripted attachment: a private HTTP/2 server (axum, what the client speaks) plays the
/// frames; `Abort` breaks the response body once the client has consumed what precedes it.
/// Returns what the client yielded and the request URIs the server saw.
async fn client_case(
    frames: Vec<Fr>,
    snapshot: bool,
    base: u64,
) -> (Vec<Result<klukai_types::api::TypedQueryEvent<(i64,)>, klukai_client::sub::SubscriptionError>>, Vec<String>) {
    use futures::StreamExt;
    use klukai_types::api::ChangeId;
    use std::collections::VecDeque;
    use std::sync::Arc;
    use tokio::sync::Notify;
    let listener = tokio::net::TcpListener::bind("127.0.0.1:0").await.unwrap();
    let addr = listener.local_addr().unwrap();
    // connection scripts and the number of items the client must have yielded before each break
    let mut q: VecDeque<(Vec<String>, Option<Arc<Notify>>)> = VecDeque::new();
    let mut breaks: Vec<(usize, Arc<Notify>)> = vec![];
    let mut cur: Vec<String> = vec![];
    let mut produced = 0usize;
    for f in &frames {
        if let Fr::Abort = f {
            let n = Arc::new(Notify::new());
            breaks.push((produced, n.clone()));
            q.push_back((std::mem::take(&mut cur), Some(n)));
        } else {
            cur.push(fr_line(f));
            produced += 1;
        }
    }
    q.push_back((cur, None));
    let scripts = Arc::new(Mutex::new(q));
    let requests: Arc<Mutex<Vec<String>>> = Arc::new(Mutex::new(vec![]));
    let app = {
        let scripts = scripts.clone();
        let requests = requests.clone();
        axum::Router::new().fallback(move |uri: axum::http::Uri| {
            let scripts = scripts.clone();
            let requests = requests.clone();
            async move {
                requests.lock().unwrap().push(uri.to_string());
                let script = scripts.lock().unwrap().pop_front();
                let Some((lines, brk)) = script else {
                    return axum::response::Response::builder().status(500).body(axum::body::Body::empty()).unwrap();
                };
                let items: Vec<Result<Bytes, std::io::Error>> = lines.into_iter().map(|l| Ok(Bytes::from(format!("{l}\n")))).collect();
                let body = match brk {
                    Some(n) => {
                        let tail = futures::stream::once(async move {
                            n.notified().await;
                            Err::<Bytes, std::io::Error>(std::io::Error::new(std::io::ErrorKind::ConnectionReset, "scripted break"))
                        });
                        axum::body::Body::from_stream(futures::stream::iter(items).chain(tail))
                    }
                    None => axum::body::Body::from_stream(futures::stream::iter(items)),
                };
                axum::response::Response::builder()
                    .status(200)
                    .header("content-type", "application/json")
                    .header("corro-query-id", "00000000-0000-0000-0000-000000000001")
                    .header("corro-query-hash", "h")
                    .body(body)
                    .unwrap()
            }
        })
    };
    let server = tokio::spawn(async move {
        let _ = axum::serve(listener, app).await;
    });
    let client = klukai_client::CorrosionApiClient::new(addr);
    let from = if snapshot { None } else { Some(ChangeId(base)) };
    for (n, b) in &breaks {
        if *n == 0 {
            b.notify_one();
        }
    }
    let mut items = vec![];
    match client.subscription_typed::<(i64,)>(uuid::Uuid::from_u128(1), false, from).await {
        Ok(mut st) => {
            while items.len() < 24 {
                match tokio::time::timeout(Duration::from_secs(15), st.next()).await {
                    Ok(Some(x)) => {
                        items.push(x);
                        for (n, b) in &breaks {
                            if *n == items.len() {
                                b.notify_one();
                            }
                        }
                    }
                    Ok(None) | Err(_) => break,
                }
            }
        }
        Err(e) => {
            // a break before the first byte of the first response: attaching itself fails; nothing to judge
            let _ = e;
        }
    }
    server.abort();
    let reqs = requests.lock().unwrap().clone();
    (items, reqs)
}

/// Returns the number of sequences judged.
fn client_part(rep: &Report, tier: Tier) -> u64 {
    use futures::StreamExt;
    use klukai_client::sub::SubscriptionError;
    use klukai_types::api::TypedQueryEvent;
    let rt = tokio::runtime::Builder::new_multi_thread().worker_threads(8).enable_all().build().unwrap();
    let maxlen = tier.pick(3, 4) as usize;
    let base = 2u64;
    let ids = [2u64, 3, 4, 5, 6];
    let mut seqs: Vec<Vec<u64>> = vec![vec![]];
    let mut frontier: Vec<Vec<u64>> = vec![vec![]];
    for _ in 0..maxlen {
        let mut next = vec![];
        for s in &frontier {
            for i in ids {
                let mut t = s.clone();
                t.push(i);
                next.push(t);
            }
        }
        seqs.extend(next.iter().cloned());
        frontier = next;
    }
    // all cases
    let mut cases: Vec<(bool, Vec<Fr>)> = vec![];
    for snapshot in [true, false] {
        for seq in &seqs {
            // variants: where the connection breaks (None = never), which change is undeserializable
            let mut variants: Vec<(Option<usize>, Option<usize>)> = vec![(None, None)];
            for a in 0..=seq.len() {
                if a == 0 && !snapshot {
                    continue; // a break before the first byte of a resumed stream makes attaching fail
                }
                variants.push((Some(a), None));
            }
            for b in 0..seq.len() {
                variants.push((None, Some(b)));
                if tier == Tier::Thorough {
                    for a in 1..=seq.len() {
                        variants.push((Some(a), Some(b)));
                    }
                }
            }
            for (abort_at, bad_at) in variants {
                let mut frames: Vec<Fr> = vec![];
                if snapshot {
                    frames.extend([Fr::Columns, Fr::Row, Fr::Eoq(base)]);
                }
                for (k, id) in seq.iter().enumerate() {
                    if abort_at == Some(k) {
                        frames.push(Fr::Abort);
                    }
                    frames.push(Fr::Change { id: *id, bad: bad_at == Some(k) });
                }
                if abort_at == Some(seq.len()) {
                    frames.push(Fr::Abort);
                }
                cases.push((snapshot, frames));
            }
        }
    }
    let results: Vec<(bool, Vec<Fr>, Vec<Result<TypedQueryEvent<(i64,)>, SubscriptionError>>, Vec<String>)> = rt.block_on(async {
        futures::stream::iter(cases.into_iter().map(|(snapshot, frames)| async move {
            let (items, reqs) = tokio::spawn(client_case(frames.clone(), snapshot, base)).await.unwrap();
            (snapshot, frames, items, reqs)
        }))
        .buffer_unordered(96)
        .collect()
        .await
    });
    rt.shutdown_timeout(Duration::from_secs(2));
    let mut judged = 0u64;
    let mut gaps_reported = 0u64;
    let mut resumes = 0u64;
    let describe = |items: &Vec<Result<TypedQueryEvent<(i64,)>, SubscriptionError>>| -> Vec<String> {
        items.iter().map(|i| match i { Ok(e) => format!("ok {:?}", e.meta()), Err(e) => format!("err {e}") }).collect()
    };
    for (snapshot, frames, items, reqs) in results {
        judged += 1;
        let mut last: Option<u64> = if snapshot { None } else { Some(base) };
        let mut it = items.iter();
        let mut reqs_expected = 1usize;
        let mut gap_case = false;
        let mut fail: Option<(&'static str, String)> = None;
        for f in &frames {
            match f {
                Fr::Abort => {
                    reqs_expected += 1;
                    match (reqs.get(reqs_expected - 1), last) {
                        (Some(r), Some(l)) => {
                            if !(r.ends_with(&format!("from={l}")) || r.contains(&format!("from={l}&"))) {
                                fail = Some(("C12:client-resumes-from-the-wrong-change-id", format!("request {r:?}, last change seen {l}")));
                            } else {
                                resumes += 1;
                            }
                        }
                        (None, Some(_)) => fail = Some(("C12:client-does-not-resume-after-a-broken-connection", format!("requests {reqs:?}"))),
                        _ => {}
                    }
                    if fail.is_some() {
                        break;
                    }
                }
                Fr::Columns | Fr::Row => {
                    if !matches!(it.next(), Some(Ok(TypedQueryEvent::Columns(_))) | Some(Ok(TypedQueryEvent::Row(..)))) {
                        fail = Some(("C12:client-lost-a-snapshot-event", String::new()));
                        break;
                    }
                }
                Fr::Eoq(c) => {
                    if !matches!(it.next(), Some(Ok(TypedQueryEvent::EndOfQuery { .. }))) {
                        fail = Some(("C12:client-lost-a-snapshot-event", String::new()));
                        break;
                    }
                    last = Some(*c);
                }
                Fr::Change { id, bad } => {
                    let got = it.next();
                    let l = match last {
                        Some(l) => l,
                        None => break,
                    };
                    if *id == l + 1 {
                        let ok = match got {
                            Some(Ok(TypedQueryEvent::Change(_, _, _, cid))) => !*bad && cid.0 == *id,
                            Some(Err(SubscriptionError::Deserialize(_))) => *bad,
                            _ => false,
                        };
                        if !ok {
                            fail = Some(("C12:client-mishandles-an-in-order-change", format!("change {id}")));
                            break;
                        }
                        last = Some(*id);
                    } else if *id > l + 1 {
                        gap_case = true;
                        let ok = matches!(got, Some(Err(SubscriptionError::MissedChange { expected, got })) if expected.0 == l + 1 && got.0 == *id);
                        if !ok {
                            fail = Some(("C12:client-does-not-report-a-gap", format!("last seen {l}, next event {id}")));
                        } else {
                            gaps_reported += 1;
                        }
                        break; // the statement says nothing about what follows a reported gap
                    } else {
                        break; // repeated / older id: not judged
                    }
                }
            }
        }
        if gap_case {
            rep.nontrivial(digest(&format!("client{snapshot}{frames:?}")));
        }
        rep.outcome(digest(&format!("client{:?}", describe(&items))));
        if let Some((k, why)) = fail {
            rep.violation(k, json!({"part": "client library", "snapshot_first": snapshot, "frames": frames, "why": why, "client_yielded": describe(&items), "requests": reqs}));
        }
        if judged % 397 == 5 {
            rep.sample(json!({"part": "client library", "frames": frames, "client_yielded": describe(&items)}));
        }
    }
    rep.set("client_library", json!({"sequences_judged": judged, "gaps_reported_correctly": gaps_reported, "resumes_from_last_seen_id": resumes, "ids": ids, "resume_point": base, "max_changes": maxlen,
        "variants": "connection broken before any change or after the last (client must resume from the last id it saw); one change undeserializable for the subscriber's row type"}));
    if gaps_reported == 0 || resumes == 0 {
        machinery_error("client part: no gap or no resume was exercised");
    }
    judged
}

fn main() {
    let cli = parse_cli();
    let rep = Report::new("C12", cli.tier, cli.seed);
    sweep_stale_scratch();
    install_gate();
    install_emit_handler();
    let tpl = Template::build(0, SCHEMA);
    if let Some(p) = &cli.replay {
        let r = load_replay(p);
        if r["part"] == "client library" {
            let frames: Vec<Fr> = serde_json::from_value(r["frames"].clone()).unwrap();
            let snapshot = r["snapshot_first"].as_bool().unwrap_or(true);
            let rt = tokio::runtime::Builder::new_multi_thread().worker_threads(2).enable_all().build().unwrap();
            let (items, reqs) = rt.block_on(client_case(frames.clone(), snapshot, 2));
            println!("frames: {frames:?}\nrequests: {reqs:?}");
            for i in &items {
                match i {
                    Ok(e) => println!("client yielded ok {:?}", e.meta()),
                    Err(e) => println!("client yielded err {e}"),
                }
            }
            println!("recorded: {}", r["why"]);
            std::process::exit(1);
        }
        let case: Case = serde_json::from_value(r["case"].clone()).unwrap();
        let prefix: Vec<usize> = serde_json::from_value(r["prefix"].clone()).unwrap();
        let out = run_schedule(&tpl, &case, &prefix);
        println!("schedule: {:?}\nstream: {:?}", out.acts, out.stream);
        for (k, d) in &out.violations {
            println!("reproduced {k}: {d}");
        }
        std::process::exit(if out.violations.is_empty() { 0 } else { 1 });
    }
    let cases: Vec<Case> = match cli.tier {
        Tier::Quick => vec![
            Case { pre: 0, n: 1, from: None, skip_rows: false },
            Case { pre: 1, n: 1, from: Some(0), skip_rows: false },
            Case { pre: 1, n: 2, from: Some(1), skip_rows: false },
        ],
        Tier::Thorough => vec![
            Case { pre: 0, n: 1, from: None, skip_rows: false },
            Case { pre: 1, n: 1, from: Some(0), skip_rows: false },
            Case { pre: 1, n: 1, from: Some(1), skip_rows: false },
            Case { pre: 1, n: 1, from: None, skip_rows: true },
            Case { pre: 0, n: 2, from: None, skip_rows: false },
            Case { pre: 1, n: 2, from: Some(1), skip_rows: false },
        ],
    };
    // debugging aid: VH_C12_CASE="pre,n,from|none" VH_C12_LEVEL=k explores one case to bound k
    let (cases, level_override): (Vec<Case>, Option<usize>) = match std::env::var("VH_C12_CASE") {
        Ok(v) => {
            let p: Vec<&str> = v.split(',').collect();
            let from = p.get(2).and_then(|x| x.parse::<u64>().ok());
            (vec![Case { pre: p[0].parse().unwrap(), n: p[1].parse().unwrap(), from, skip_rows: false }], std::env::var("VH_C12_LEVEL").ok().and_then(|x| x.parse().ok()))
        }
        Err(_) => (cases, None),
    };
    // the client library's side of the property first (cheap, exhaustive, no time cap)
    let client_cases = client_part(&rep, cli.tier);
    // the client part's verdict must not be lost to anything that happens in the schedule exploration
    if rep.violation_count() > 0 {
        rep.set("states", client_cases);
        rep.set("transitions", client_cases);
        rep.set("client_library_cases", client_cases);
        rep.set("exhaustive", false);
        rep.finish();
    }
    // quick: every schedule with at most 2 departures from the default order, for both cases
    // (deterministic work); the wall-clock cap is a safety net
    let max_level: usize = level_override.unwrap_or(cli.tier.pick(2, 64) as usize);
    let deadline = Instant::now() + Duration::from_secs(cli.tier.pick(300, 1700));
    let mut total = 0u64;
    let mut steps = 0u64;
    let mut capped = None;
    // preemption-bounded exploration: all schedules with 0 departures from the default choice (keep
    // running the actor that ran last; at a free switch forwarder, then subscriber, then matcher) for
    // every case, then 1 for every case, ...
    let mut buckets: Vec<Vec<Vec<Vec<usize>>>> = cases.iter().map(|_| vec![vec![vec![]]]).collect();
    let mut counts = vec![0u64; cases.len()];
    let mut bound_completed: Vec<i64> = vec![-1; cases.len()];
    let mut level = 0;
    'levels: loop {
        if buckets.iter().all(|b| b.len() <= level) || level > max_level {
            break;
        }
        for (ci, case) in cases.iter().enumerate() {
            if buckets[ci].len() <= level {
                continue;
            }
            while let Some(prefix) = buckets[ci][level].pop() {
                if Instant::now() > deadline {
                    capped = Some(format!("wall-clock cap while exploring {case:?} at deviation bound {level}"));
                    break 'levels;
                }
                let out = run_schedule(&tpl, case, &prefix);
                counts[ci] += 1;
                total += 1;
                steps += out.acts.len() as u64;
                if !out.violations.is_empty() {
                    let k1: Vec<String> = out.violations.iter().map(|v| v.0.clone()).collect();
                    let mut confirmed = false;
                    for _ in 0..3 {
                        let again = run_schedule(&tpl, case, &prefix);
                        let k2: Vec<String> = again.violations.iter().map(|v| v.0.clone()).collect();
                        if k1 == k2 {
                            confirmed = true;
                            break;
                        }
                    }
                    if !confirmed {
                        machinery_error(&format!("violation not reproducible: {case:?} {prefix:?} {k1:?}"));
                    }
                }
                for (k, d) in &out.violations {
                    rep.violation(k, json!({"case": case, "prefix": prefix, "schedule": format!("{:?}", out.acts), "d": d}));
                }
                rep.outcome(digest(&format!("{:?}", out.stream)));
                rep.nontrivial(digest(&format!("{case:?}{:?}", out.acts)));
                if total % 23 == 4 {
                    rep.sample(json!({"case": case, "schedule": format!("{:?}", out.acts), "subscriber_stream": out.stream}));
                }
                for pos in prefix.len()..out.widths.len() {
                    for alt in 1..out.widths[pos] {
                        let mut p: Vec<usize> = (0..pos).map(|k| if k < prefix.len() { prefix[k] } else { 0 }).collect();
                        p.push(alt);
                        let dev = p.iter().filter(|c| **c != 0).count();
                        while buckets[ci].len() <= dev {
                            buckets[ci].push(vec![]);
                        }
                        buckets[ci][dev].push(p);
                    }
                }
            }
            bound_completed[ci] = level as i64;
        }
        level += 1;
    }
    let per_case: Vec<Value> = cases
        .iter()
        .enumerate()
        .map(|(ci, case)| {
            let complete = buckets[ci].iter().all(|b| b.is_empty());
            json!({"case": case, "schedules": counts[ci], "complete": complete, "deviation_bound_completed": bound_completed[ci]})
        })
        .collect();
    rep.set("client_library_cases", client_cases);
    rep.set("states", total);
    rep.set("transitions", steps);
    rep.set("evaluations", total);
    rep.set("traces_validated_against_impl", total);
    rep.set("cases", json!(per_case));
    rep.set("schedules_whose_recorded_prefix_was_not_reproducible", DIVERGED.load(SeqCst));
    rep.set("exhaustive", capped.is_none());
    if let Some(c) = capped {
        rep.set("cap_hit", c);
    }
    rep.assume("scheduling points: matcher handle_candidates (sent, marked, before_commit, committed), the forwarder (one event at a time through a harness pump into the real process_sub_channel), catch_up_sub (start, snapshot_done, checked, before_live); interleavings inside tokio's channels finer than these are not explored");
    rep.assume("one attaching subscriber; every schedule ends with an ungated follow-up change so that a silently missed change shows as a gap");
    rep.require_nontrivial(10, "every complete schedule (distinct action sequence) is a non-trivial case");
    rep.finish();
}

//! E4 `pure`: exhaustive small-scope enumeration of pure functions.
//!   C04: SyncStateV1::compute_available_needs over all pairs of well-formed states.
//!   C08: ChunkedChanges over all change lists / limits / limit changes; chunk_range.

use klukai_agent::verif::chunk_range;
use klukai_types::actor::ActorId;
use klukai_types::base::{CrsqlDbVersion, CrsqlSeq};
use klukai_types::change::{Change, ChunkedChanges};
use klukai_types::sync::{SyncNeedV1, SyncStateV1};
use rayon::prelude::*;
use serde_json::{Value, json};
use std::collections::{BTreeMap, BTreeSet};
use std::ops::RangeInclusive;
use std::sync::atomic::{AtomicU64, Ordering};
use vh::vcore::*;

fn main() {
    let cli = parse_cli();
    let prop = cli.props.first().cloned().unwrap_or_default();
    match prop.as_str() {
        "C04" => c04(&cli),
        "C08" => c08(&cli),
        _ => machinery_error("pure: --prop C04|C08"),
    }
}

// ------------------------------------------------------------------------------------------
// C04
// ------------------------------------------------------------------------------------------

/// Status of one version at one side, for one origin actor.
#[derive(Clone, Copy, PartialEq, Eq, Debug, Hash)]
enum St {
    Held,
    Needed,
    /// bitmask of *missing* seqs over 0..=S (non-empty, not all-missing is allowed too:
    /// a partial that has received some chunk misses a proper subset; we also allow "missing
    /// everything but known as partial" = all bits, which `generate_sync` can emit for an
    /// empty-chunk partial)
    Partial(u8),
}

/// One side's knowledge about one origin actor: statuses of versions 1..=head (head = len).
#[derive(Clone, Debug, PartialEq, Eq, Hash)]
struct ActorView(Vec<St>);

fn actor_views(vmax: usize, s: u8) -> Vec<ActorView> {
    // all status vectors of length 0..=vmax whose last element (the head) is not Needed
    let mut opts = vec![St::Held, St::Needed];
    let full: u8 = (1u16 << (s + 1)) as u8 - 1;
    for m in 1..=full {
        opts.push(St::Partial(m));
    }
    let mut out = vec![ActorView(vec![])];
    let mut cur: Vec<Vec<St>> = vec![vec![]];
    for _ in 0..vmax {
        let mut next = vec![];
        for v in &cur {
            for o in &opts {
                let mut w = v.clone();
                w.push(*o);
                next.push(w);
            }
        }
        for w in &next {
            if *w.last().unwrap() != St::Needed {
                out.push(ActorView(w.clone()));
            }
        }
        cur = next;
    }
    out
}

fn mask_to_ranges(m: u8) -> Vec<RangeInclusive<CrsqlSeq>> {
    let mut out = vec![];
    let mut i = 0u64;
    while i < 8 {
        if m & (1 << i) != 0 {
            let st = i;
            while i + 1 < 8 && m & (1 << (i + 1)) != 0 {
                i += 1;
            }
            out.push(CrsqlSeq(st)..=CrsqlSeq(i));
        }
        i += 1;
    }
    out
}

fn put_view(state: &mut SyncStateV1, actor: ActorId, view: &ActorView) {
    let h = view.0.len() as u64;
    if h == 0 {
        return;
    }
    state.heads.insert(actor, CrsqlDbVersion(h));
    let mut need = vec![];
    let mut i = 0;
    while i < view.0.len() {
        if view.0[i] == St::Needed {
            let st = i;
            while i + 1 < view.0.len() && view.0[i + 1] == St::Needed {
                i += 1;
            }
            need.push(CrsqlDbVersion(st as u64 + 1)..=CrsqlDbVersion(i as u64 + 1));
        }
        i += 1;
    }
    if !need.is_empty() {
        state.need.insert(actor, need);
    }
    let mut partials = std::collections::HashMap::new();
    for (i, st) in view.0.iter().enumerate() {
        if let St::Partial(m) = st {
            partials.insert(CrsqlDbVersion(i as u64 + 1), mask_to_ranges(*m));
        }
    }
    if !partials.is_empty() {
        state.partial_need.insert(actor, partials);
    }
}

fn actor(n: u8) -> ActorId {
    ActorId::from_bytes([n; 16])
}

/// What the call requested, normalised per origin actor.
#[derive(Default, Debug, Clone, PartialEq, Eq, Hash)]
struct Req {
    full: BTreeSet<u64>,
    partial: BTreeMap<u64, u8>,
}

fn normalise(needs: &[SyncNeedV1]) -> Result<Req, String> {
    let mut r = Req::default();
    for n in needs {
        match n {
            SyncNeedV1::Full { versions } => {
                if versions.start() > versions.end() {
                    return Err(format!("inverted full range {versions:?}"));
                }
                for v in versions.start().0..=versions.end().0 {
                    r.full.insert(v);
                }
            }
            SyncNeedV1::Partial { version, seqs } => {
                let e = r.partial.entry(version.0).or_default();
                for s in seqs {
                    if s.start() > s.end() {
                        return Err(format!("inverted seq range {s:?}"));
                    }
                    for q in s.start().0..=s.end().0 {
                        if q < 8 {
                            *e |= 1 << q;
                        } else {
                            return Err(format!("seq {q} beyond universe"));
                        }
                    }
                }
            }
            SyncNeedV1::Empty { .. } => {}
        }
    }
    Ok(r)
}

/// Set-model oracle for one origin actor. Returns Some(key, msg) on violation.
fn check_actor(ours: &ActorView, theirs: &ActorView, s: u8, req: &Req) -> Option<(String, String)> {
    let full_mask: u8 = (1u16 << (s + 1)) as u8 - 1;
    let their_head = theirs.0.len() as u64;
    let our_head = ours.0.len() as u64;
    // bounded
    for v in req.full.iter().chain(req.partial.keys()) {
        if *v < 1 || *v > their_head {
            return Some((
                "request-outside-peer-head".into(),
                format!("requested version {v} outside 1..={their_head}"),
            ));
        }
    }
    for v in 1..=their_head {
        let t = theirs.0[(v - 1) as usize];
        let o = if v <= our_head {
            Some(ours.0[(v - 1) as usize])
        } else {
            None
        };
        let lacking_entirely = matches!(o, None | Some(St::Needed));
        match (t, o) {
            (St::Held, _) if lacking_entirely => {
                if !req.full.contains(&v) {
                    return Some((
                        "missing-full-request".into(),
                        format!("version {v}: peer holds it, we lack it, not requested"),
                    ));
                }
            }
            (St::Held, Some(St::Partial(miss))) => {
                let got = req.partial.get(&v).copied().unwrap_or(0);
                let covered = if req.full.contains(&v) { full_mask } else { got };
                if miss & !covered != 0 {
                    return Some((
                        "missing-partial-request-from-full-holder".into(),
                        format!(
                            "version {v}: we miss seqs mask {miss:#b}, peer holds all, requested {got:#b}"
                        ),
                    ));
                }
            }
            (St::Partial(tmiss), Some(St::Partial(miss))) => {
                let they_have = full_mask & !tmiss;
                let want = miss & they_have;
                let got = req.partial.get(&v).copied().unwrap_or(0);
                let covered = if req.full.contains(&v) { full_mask } else { got };
                if want & !covered != 0 {
                    return Some((
                        "missing-partial-request-from-partial-holder".into(),
                        format!(
                            "version {v}: we miss {miss:#b}, peer has {they_have:#b}, requested {got:#b}"
                        ),
                    ));
                }
            }
            _ => {}
        }
    }
    None
}

fn c04(cli: &Cli) {
    let rep = Report::new("C04", cli.tier, cli.seed);
    rep.assume("well-formed states: need ranges are the maximal runs of needed versions, the head version itself is held or partial, partial_need lists maximal missing seq runs (the shape generate_sync emits)");
    rep.assume("requests for data the peer lacks or that we already hold are counted, not violations (the statement does not forbid them)");

    let evals = AtomicU64::new(0);
    let superfluous = AtomicU64::new(0);

    // ---- family 1: one origin actor, V<=vmax, S<=smax
    let families: Vec<(usize, u8)> = cli.tier.pick(
        vec![(4usize, 0u8), (4, 1), (3, 2)],
        vec![(6, 0), (5, 1), (4, 2), (3, 3)],
    );
    let a = actor(1);
    let me = actor(9);
    let peer = actor(8);
    let mut total_states = 0u64;
    for (vmax, s) in families.iter().copied() {
        let views = actor_views(vmax, s);
        total_states += views.len() as u64;
        views.par_iter().enumerate().for_each(|(oi, ours)| {
            let mut our_state = SyncStateV1 {
                actor_id: me,
                ..Default::default()
            };
            put_view(&mut our_state, a, ours);
            let mut local_nontrivial = 0u64;
            let mut local_super = 0u64;
            let mut outcomes = BTreeSet::new();
            for (ti, theirs) in views.iter().enumerate() {
                let mut their_state = SyncStateV1 {
                    actor_id: peer,
                    ..Default::default()
                };
                put_view(&mut their_state, a, theirs);
                let needs = our_state.compute_available_needs(&their_state);
                evals.fetch_add(1, Ordering::Relaxed);
                let mk = |key: &str, msg: String| {
                    rep.violation(
                        &format!("compute_available_needs:{key}"),
                        json!({"kind":"c04","s":s,"ours":fmt_view(ours),"theirs":fmt_view(theirs),"msg":msg,
                               "needs": format!("{needs:?}")}),
                    );
                };
                if needs.keys().any(|k| *k != a) {
                    mk("request-for-unknown-actor", "needs for an actor the peer did not advertise".into());
                    continue;
                }
                let req = match normalise(needs.get(&a).map(|v| v.as_slice()).unwrap_or(&[])) {
                    Ok(r) => r,
                    Err(e) => {
                        mk("malformed-request", e);
                        continue;
                    }
                };
                if let Some((key, msg)) = check_actor(ours, theirs, s, &req) {
                    mk(&key, msg);
                }
                if !req.full.is_empty() || !req.partial.is_empty() {
                    local_nontrivial += 1;
                }
                // count superfluous requests (peer does not hold / we already hold)
                for v in &req.full {
                    let t = theirs.0[(*v - 1) as usize];
                    if t != St::Held {
                        local_super += 1;
                    }
                }
                outcomes.insert(digest(&req));
                if oi == views.len() / 2 && ti % (views.len() / 3 + 1) == 1 {
                    rep.sample(json!({"ours":fmt_view(ours),"theirs":fmt_view(theirs),"last_seq":s,"needs":format!("{:?}", needs.get(&a))}));
                }
            }
            rep.nontrivial_distinct_by_construction(local_nontrivial);
            superfluous.fetch_add(local_super, Ordering::Relaxed);
            for o in outcomes {
                rep.outcome(o);
            }
        });
    }
    rep.set("family1", json!({"(versions_max,last_seq)": families, "states_per_side_total": total_states}));

    // ---- family 2: two origin actors + our own actor id on both sides, V<=2, S<=1
    let (v2, s2) = cli.tier.pick((2usize, 0u8), (2usize, 1u8));
    let _ = &families;
    let views = actor_views(v2, s2);
    let b = actor(2);
    let n = views.len();
    let idx: Vec<(usize, usize)> = (0..n).flat_map(|i| (0..n).map(move |j| (i, j))).collect();
    idx.par_iter().for_each(|(oa, ob)| {
        // ours: views for a and b, plus our own actor fully held up to 2
        let mut our_state = SyncStateV1 {
            actor_id: me,
            ..Default::default()
        };
        put_view(&mut our_state, a, &views[*oa]);
        put_view(&mut our_state, b, &views[*ob]);
        put_view(&mut our_state, me, &ActorView(vec![St::Held, St::Held]));
        let mut local_nontrivial = 0;
        for ta in 0..n {
            for tb in 0..n {
                for tme in [0usize, n - 1, n / 2] {
                    let mut their_state = SyncStateV1 {
                        actor_id: peer,
                        ..Default::default()
                    };
                    put_view(&mut their_state, a, &views[ta]);
                    put_view(&mut their_state, b, &views[tb]);
                    put_view(&mut their_state, me, &views[tme]);
                    // the peer's own versions
                    put_view(&mut their_state, peer, &ActorView(vec![St::Held]));
                    let needs = our_state.compute_available_needs(&their_state);
                    evals.fetch_add(1, Ordering::Relaxed);
                    let mk = |key: &str, msg: String| {
                        rep.violation(
                            &format!("compute_available_needs:{key}"),
                            json!({"kind":"c04-multi","s":s2,"ours_a":fmt_view(&views[*oa]),"ours_b":fmt_view(&views[*ob]),
                                   "theirs_a":fmt_view(&views[ta]),"theirs_b":fmt_view(&views[tb]),"theirs_me":fmt_view(&views[tme]),
                                   "msg":msg,"needs":format!("{needs:?}")}),
                        );
                    };
                    if needs.contains_key(&me) {
                        mk("asks-for-own-versions", "request for versions we authored".into());
                    }
                    for (act, ours_v, theirs_v) in [
                        (a, &views[*oa], &views[ta]),
                        (b, &views[*ob], &views[tb]),
                        (peer, &ActorView(vec![]), &ActorView(vec![St::Held])),
                    ] {
                        match normalise(needs.get(&act).map(|v| v.as_slice()).unwrap_or(&[])) {
                            Ok(req) => {
                                if let Some((key, msg)) = check_actor(ours_v, theirs_v, s2, &req) {
                                    mk(&key, msg);
                                }
                            }
                            Err(e) => mk("malformed-request", e),
                        }
                    }
                    if needs.len() >= 2 {
                        local_nontrivial += 1;
                    }
                }
            }
        }
        rep.nontrivial_distinct_by_construction(local_nontrivial);
    });
    rep.set("family2", json!({"actors": 2, "plus_own_actor": true, "versions_max": v2, "last_seq_max": s2, "views_per_actor": n}));

    let e = evals.load(Ordering::Relaxed);
    rep.set("states", total_states + n as u64);
    rep.set("transitions", e);
    rep.set("evaluations", e);
    rep.set("exhaustive", true);
    rep.set("superfluous_full_requests_counted", superfluous.load(Ordering::Relaxed));
    rep.set("traces_validated_against_impl", e);
    rep.set("explanation", "every pair of enumerated states is evaluated by the real SyncStateV1::compute_available_needs; the oracle is an independent set model (bitmask per version)");
    rep.require_nontrivial(1000, "pair (ours, theirs) is non-trivial when the real function emits at least one request (family 1) or requests for >= 2 actors (family 2); pairs are distinct by construction");
    rep.finish();
}

fn fmt_view(v: &ActorView) -> Value {
    json!(
        v.0.iter()
            .map(|s| match s {
                St::Held => "H".to_string(),
                St::Needed => "N".to_string(),
                St::Partial(m) => format!("P(miss={m:#b})"),
            })
            .collect::<Vec<_>>()
    )
}

// ------------------------------------------------------------------------------------------
// C08
// ------------------------------------------------------------------------------------------

fn mk_change(seq: u64, large: bool) -> Change {
    Change {
        pk: if large { vec![0u8; 200] } else { vec![] },
        seq: CrsqlSeq(seq),
        ..Default::default()
    }
}

/// Run one chunker case; `limits[0]` is the initial limit, `limits[k]` is set after the k-th chunk.
fn run_chunker(
    start: u64,
    last: u64,
    seqs: &[(u64, bool)],
    limits: &[usize],
) -> Result<Vec<(Vec<u64>, RangeInclusive<u64>)>, String> {
    let changes: Vec<rusqlite::Result<Change>> =
        seqs.iter().map(|(s, l)| Ok(mk_change(*s, *l))).collect();
    let mut ch = ChunkedChanges::new(
        changes.into_iter(),
        CrsqlSeq(start),
        CrsqlSeq(last),
        limits[0],
    );
    let mut out = vec![];
    let mut k = 0;
    loop {
        if out.len() > seqs.len() + 3 {
            return Err("iterator does not end".into());
        }
        match ch.next() {
            None => break,
            Some(Err(e)) => return Err(format!("error {e}")),
            Some(Ok((changes, range))) => {
                out.push((
                    changes.iter().map(|c| c.seq.0).collect(),
                    range.start().0..=range.end().0,
                ));
                k += 1;
                if k < limits.len() {
                    ch.set_max_buf_size(limits[k]);
                }
            }
        }
    }
    Ok(out)
}

fn check_tiling(
    start: u64,
    last: u64,
    seqs: &[(u64, bool)],
    out: &[(Vec<u64>, RangeInclusive<u64>)],
) -> Option<(&'static str, String)> {
    if out.is_empty() {
        return Some(("no-chunk", "no chunk produced".into()));
    }
    if *out[0].1.start() != start {
        return Some(("first-start", format!("first range {:?} does not start at {start}", out[0].1)));
    }
    if *out.last().unwrap().1.end() != last {
        return Some(("last-end", format!("last range {:?} does not end at {last}", out.last().unwrap().1)));
    }
    for w in out.windows(2) {
        if *w[1].1.start() != *w[0].1.end() + 1 {
            return Some(("not-contiguous", format!("{:?} then {:?}", w[0].1, w[1].1)));
        }
    }
    for (_, r) in out {
        if r.start() > r.end() {
            return Some(("inverted-range", format!("{r:?}")));
        }
    }
    let all: Vec<u64> = out.iter().flat_map(|(c, _)| c.iter().copied()).collect();
    let want: Vec<u64> = seqs.iter().map(|(s, _)| *s).collect();
    if all != want {
        return Some(("changes-lost-dup-or-reordered", format!("got {all:?} want {want:?}")));
    }
    for (c, r) in out {
        for s in c {
            if !r.contains(s) {
                return Some(("change-outside-range", format!("seq {s} not in {r:?}")));
            }
        }
    }
    None
}

fn c08(cli: &Cli) {
    let rep = Report::new("C08", cli.tier, cli.seed);
    if let Some(p) = &cli.replay {
        let r = load_replay(p);
        let start = r["start"].as_u64().unwrap();
        let last = r["last"].as_u64().unwrap();
        let seqs: Vec<(u64, bool)> = serde_json::from_value(r["seqs"].clone()).unwrap();
        let limits: Vec<usize> = serde_json::from_value(r["limits"].clone()).unwrap();
        let out = catch(|| run_chunker(start, last, &seqs, &limits));
        println!("replay: {out:?}");
        match out {
            Ok(Ok(o)) => match check_tiling(start, last, &seqs, &o) {
                Some((k, m)) => {
                    println!("reproduced: {k}: {m}");
                    std::process::exit(1)
                }
                None => std::process::exit(0),
            },
            _ => std::process::exit(1),
        }
    }
    quiet_panics();
    let span = cli.tier.pick(5u64, 7u64);
    let small = mk_change(0, false).estimated_byte_size();
    let large = mk_change(0, true).estimated_byte_size();
    let limit_pool: Vec<usize> = vec![0, 1, small, small + 1, 2 * small, large, 3 * large, usize::MAX / 2];
    let nchanges = cli.tier.pick(2usize, 3usize); // how many times the limit changes between chunks
    let evals = AtomicU64::new(0);
    let mut cases: Vec<(u64, u64)> = vec![];
    for start in 0..=2u64 {
        for last in start..=start + span {
            cases.push((start, last));
        }
    }
    // limit schedules
    let mut schedules: Vec<Vec<usize>> = limit_pool.iter().map(|l| vec![*l]).collect();
    for _ in 0..nchanges {
        let mut next = vec![];
        for s in &schedules {
            for l in &limit_pool {
                let mut t = s.clone();
                t.push(*l);
                next.push(t);
            }
        }
        schedules = next;
    }
    cases.par_iter().for_each(|(start, last)| {
        let n = (last - start + 1) as u32;
        // every subset of [start,last], every small/large assignment
        for subset in 0u32..(1 << n) {
            let present: Vec<u64> = (0..n).filter(|i| subset & (1 << i) != 0).map(|i| start + i as u64).collect();
            for sizes in 0u32..(1 << present.len()) {
                let seqs: Vec<(u64, bool)> = present
                    .iter()
                    .enumerate()
                    .map(|(i, s)| (*s, sizes & (1 << i) != 0))
                    .collect();
                let mut local_outcomes = BTreeSet::new();
                let mut local_nt = 0u64;
                for limits in &schedules {
                    evals.fetch_add(1, Ordering::Relaxed);
                    let res = catch(|| run_chunker(*start, *last, &seqs, limits));
                    let replay = || json!({"kind":"chunker","start":start,"last":last,"seqs":seqs,"limits":limits});
                    match res {
                        Err(p) => rep.violation("ChunkedChanges:panic", json!({"case":replay(),"panic":p})),
                        Ok(Err(e)) => rep.violation(&format!("ChunkedChanges:{}", e.replace(' ', "-")), replay()),
                        Ok(Ok(out)) => {
                            if let Some((k, m)) = check_tiling(*start, *last, &seqs, &out) {
                                rep.violation(&format!("ChunkedChanges:{k}"), json!({"start":start,"last":last,"seqs":seqs,"limits":limits,"msg":m,"out":format!("{out:?}")}));
                            }
                            if out.len() >= 2 {
                                local_nt += 1;
                            }
                            local_outcomes.insert(digest(&format!("{out:?}")));
                            if *start == 1 && *last == 4 && subset == 0b1011 && sizes == 0b010 && limits.len() > 1 && limits[0] == small && limits[1] == 0 {
                                rep.sample(json!({"case":replay(),"chunks":format!("{out:?}")}));
                            }
                        }
                    }
                }
                rep.nontrivial_distinct_by_construction(local_nt);
                for o in local_outcomes {
                    rep.outcome(o);
                }
            }
        }
    });
    let chunker_evals = evals.load(Ordering::Relaxed);

    // chunk_range
    let hi_max = cli.tier.pick(30u64, 60u64);
    let mut cr = 0u64;
    for lo in 0..=hi_max {
        for hi in lo..=hi_max {
            for cs in 1..=12usize {
                cr += 1;
                let res = catch(|| chunk_range(CrsqlDbVersion(lo)..=CrsqlDbVersion(hi), cs));
                match res {
                    Err(p) => rep.violation("chunk_range:panic", json!({"lo":lo,"hi":hi,"chunk":cs,"panic":p})),
                    Ok(subs) => {
                        let mut cover = BTreeSet::new();
                        let mut bad = None;
                        for r in &subs {
                            if r.start() > r.end() || r.start().0 < lo || r.end().0 > hi {
                                bad = Some(format!("sub-range {r:?} outside {lo}..={hi}"));
                            }
                            for v in r.start().0..=r.end().0 {
                                cover.insert(v);
                            }
                        }
                        let want: BTreeSet<u64> = (lo..=hi).collect();
                        if cover != want {
                            bad = Some(format!("union {cover:?} != {lo}..={hi}"));
                        }
                        if let Some(m) = bad {
                            rep.violation("chunk_range:union-mismatch", json!({"lo":lo,"hi":hi,"chunk":cs,"msg":m}));
                        }
                        if subs.len() >= 2 {
                            rep.nontrivial_distinct_by_construction(1);
                        }
                        if lo == 3 && hi == 27 && cs == 10 {
                            rep.sample(json!({"chunk_range":{"lo":lo,"hi":hi,"chunk":cs},"out":format!("{subs:?}")}));
                        }
                    }
                }
            }
        }
    }
    rep.set("states", cases.len() as u64 * schedules.len() as u64);
    rep.set("transitions", chunker_evals + cr);
    rep.set("evaluations", chunker_evals + cr);
    rep.set("traces_validated_against_impl", chunker_evals + cr);
    rep.set("exhaustive", true);
    rep.set("bounds", json!({"start":"0..=2","span_max":span,"subsets":"all","sizes":"small/large per change","limit_pool":limit_pool,"limit_changes":nchanges,"chunk_range":{"lo_hi_max":hi_max,"chunk":"1..=12"}}));
    rep.set("chunker_cases", chunker_evals);
    rep.set("chunk_range_cases", cr);
    rep.assume("chunk size >= 1 for chunk_range (0 is not a meaningful chunk size; the only call site passes 10)");
    rep.assume("overlap of adjacent chunk_range blocks at block edges is allowed by the statement (union = input)");
    rep.require_nontrivial(1000, "a chunker case is non-trivial when it yields >= 2 chunks; a chunk_range case when it yields >= 2 sub-ranges; cases distinct by construction");
    rep.finish();
}

//! E6 `ingest` (C10): the real `handle_changes` loop (real channel, JoinSet, seen-cache) on a real
//! node, driven through `tx_changes`. Overload is made deterministic: the harness holds the write
//! connection, five filler changesets occupy the five processing slots, then every arrival
//! sequence over a colliding alphabet is offered so the bounded queue overflows; afterwards every
//! offered changeset is re-offered (as sync does) for at most three rounds.
//!
//! Soundness of "never accepted again": the real loop trims its seen-cache on a timer tick whenever
//! the cache holds more keys than `processing_queue_len`. The tick is disabled here (determinism),
//! so a stale cache entry is only reported in cases where the trim could never fire: the overload
//! family runs only cases whose number of distinct (actor, version) keys - the fillers are chunks of
//! ONE version - does not exceed the queue length. A second family offers changesets to an idle
//! pipeline (no overload): whatever is suppressed there is suppressed by the duplicate / already-held
//! checks alone.

use klukai_types::actor::ActorId;
use klukai_types::api::Statement;
use klukai_types::base::CrsqlDbVersion;
use klukai_types::broadcast::{ChangeSource, ChangeV1, Changeset};
use klukai_types::channel::bounded;
use klukai_types::config::PerfConfig;
use serde_json::{Value, json};
use std::collections::BTreeMap;
use std::time::{Duration, Instant};
use vh::vcore::*;
use vh::vnode::*;

const SCHEMA: &str = "CREATE TABLE t (id INTEGER PRIMARY KEY NOT NULL, a TEXT NOT NULL DEFAULT '', b TEXT NOT NULL DEFAULT '');";

/// symbols of the explored suffix
#[derive(Clone, Copy, Debug, PartialEq, Eq, Hash, serde::Serialize, serde::Deserialize)]
enum Sym {
    /// A's version 1, complete
    A1,
    /// A's version 2 (four cells) complete, and as four single-seq chunks
    A2,
    A2a,
    A2b,
    A2c,
    A2d,
    /// A's version 3, complete
    A3,
    /// B's version 1, complete
    B1,
    /// empty changesets for A's version 2 (it also travels as full changesets: a relay that saw it
    /// overwritten declares it empty while the origin's own announcement is still around), for
    /// versions 1..=2 and for versions 1..=3
    EA2,
    EA12,
    EA13,
}
/// overload family
const ALPHABET: [Sym; 8] = [Sym::A1, Sym::A2a, Sym::A2b, Sym::A2c, Sym::A2d, Sym::EA2, Sym::EA12, Sym::B1];
/// idle family
const IDLE_ALPHABET: [Sym; 7] = [Sym::A1, Sym::A2, Sym::A3, Sym::A2a, Sym::EA2, Sym::EA12, Sym::EA13];

impl Sym {
    /// the (actor, version) keys the loop's seen-cache uses for this changeset (actor 0 = A, 1 = B)
    fn keys(self) -> Vec<(u8, u64)> {
        match self {
            Sym::A1 => vec![(0, 1)],
            Sym::A2 | Sym::A2a | Sym::A2b | Sym::A2c | Sym::A2d | Sym::EA2 => vec![(0, 2)],
            Sym::A3 => vec![(0, 3)],
            Sym::B1 => vec![(1, 1)],
            Sym::EA12 => vec![(0, 1), (0, 2)],
            Sym::EA13 => vec![(0, 1), (0, 2), (0, 3)],
        }
    }
}

struct World {
    tpl: Template,
    a: Vec<ChangeV1>, // versions 1..=3 of actor A (complete); version 2 has four cells
    b: Vec<ChangeV1>,
    /// five single-seq chunks of ONE version of actor C (one seen-cache key)
    fillers: Vec<ChangeV1>,
    actor_a: ActorId,
}

/// `rows[i]` = number of rows inserted by version i+1 (two cells per row)
fn write_versions(idx: usize, rows: &[u64], base: u64) -> Vec<ChangeV1> {
    let tpl = Template::build(idx, SCHEMA);
    let s = Scratch::new("ingw");
    let p = tpl.instantiate(&s.path().join("w"));
    let mut w = RtNode::open(&p, NodeOpts::default());
    let mut out = vec![];
    let mut id = base;
    for (i, n) in rows.iter().enumerate() {
        let vals: Vec<String> = (0..*n)
            .map(|_| {
                id += 1;
                format!("({id},'a{id}','b{id}')")
            })
            .collect();
        let (st, body, bc) = w.run(async |nd| nd.write(vec![Statement::Simple(format!("INSERT INTO t (id,a,b) VALUES {}", vals.join(",")))], None).await);
        assert_eq!(st, 200);
        assert_eq!(body.version, Some(i as u64 + 1));
        assert_eq!(bc.len(), 1);
        out.push(bc[0].clone());
    }
    out
}

fn chunk(c: &ChangeV1, i: u64, j: u64) -> ChangeV1 {
    if let Changeset::Full { version, changes, last_seq, ts, .. } = &c.changeset {
        full(c.actor_id, version.0, changes.iter().filter(|x| x.seq.0 >= i && x.seq.0 <= j).cloned().collect(), i..=j, last_seq.0, *ts)
    } else {
        unreachable!()
    }
}

impl World {
    fn new() -> World {
        let c = write_versions(2, &[3], 300);
        World {
            tpl: Template::build(3, SCHEMA),
            a: write_versions(0, &[1, 2, 1], 100),
            b: write_versions(1, &[1], 200),
            fillers: (0..5).map(|q| chunk(&c[0], q, q)).collect(),
            actor_a: site_id(0),
        }
    }
    fn sym(&self, s: Sym) -> ChangeV1 {
        match s {
            Sym::A1 => self.a[0].clone(),
            Sym::A2 => self.a[1].clone(),
            Sym::A2a => chunk(&self.a[1], 0, 0),
            Sym::A2b => chunk(&self.a[1], 1, 1),
            Sym::A2c => chunk(&self.a[1], 2, 2),
            Sym::A2d => chunk(&self.a[1], 3, 3),
            Sym::A3 => self.a[2].clone(),
            Sym::B1 => self.b[0].clone(),
            Sym::EA2 => empty(self.actor_a, 2..=2),
            Sym::EA12 => empty(self.actor_a, 1..=2),
            Sym::EA13 => empty(self.actor_a, 1..=3),
        }
    }
}

#[derive(Debug, Clone, serde::Serialize, serde::Deserialize)]
struct Case {
    queue_len: usize,
    apply_len: usize,
    suffix: Vec<Sym>,
    /// release the database after this many suffix arrivals (usize::MAX: after all)
    release_after: usize,
    /// idle family: no fillers, the database is never held
    #[serde(default)]
    idle: bool,
    /// failing-batch family (idle pipeline): another connection holds the database's write lock
    /// while the suffix arrives, so every batch fails with SQLITE_BUSY after the busy timeout
    #[serde(default)]
    external_lock: bool,
}

struct CaseResult {
    violations: Vec<(String, Value)>,
    shed: usize,
    rounds_needed: usize,
    outcome: u64,
}

async fn offer(nd: &Node, c: ChangeV1) {
    let own = nd.actor_id();
    nd.agent.tx_changes().send((c, ChangeSource::Sync)).await.unwrap();
    // two self-authored sentinels: when the second is accepted the offer has been handled
    for _ in 0..2 {
        nd.agent.tx_changes().send((empty(own, 1..=1), ChangeSource::Sync)).await.unwrap();
    }
}

async fn settle(nd: &Node) {
    let own = nd.actor_id();
    let start = Instant::now();
    loop {
        nd.quiesce().await;
        for _ in 0..2 {
            nd.agent.tx_changes().send((empty(own, 1..=1), ChangeSource::Sync)).await.unwrap();
        }
        tokio::task::yield_now().await;
        if alive_tasks() <= baseline() {
            // stable across a full turn of the loop
            nd.quiesce().await;
            for _ in 0..2 {
                nd.agent.tx_changes().send((empty(own, 1..=1), ChangeSource::Sync)).await.unwrap();
            }
            if alive_tasks() <= baseline() {
                return;
            }
        }
        if start.elapsed() > Duration::from_secs(30) {
            machinery_error("ingest pipeline did not settle");
        }
    }
}

async fn held(nd: &Node, c: &ChangeV1) -> bool {
    let booked = nd.bookie.read::<&str, _>("verif", None).await.get(&c.actor_id).cloned();
    match booked {
        Some(b) => b.read::<&str, _>("verif", None).await.contains_all(c.versions(), c.seqs()),
        None => false,
    }
}

/// is what the node claims about `c` actually stored?
/// `cleared`: versions an offered empty changeset declares empty - a full changeset of such a
/// version may legitimately be held without any row of it (applied or buffered) being around.
async fn stored(nd: &Node, c: &ChangeV1, cleared: &[(klukai_types::actor::ActorId, u64)]) -> bool {
    let c = c.clone();
    if let Changeset::Full { version, .. } = &c.changeset {
        if cleared.contains(&(c.actor_id, version.0)) {
            return true;
        }
    }
    nd.read(move |conn| match &c.changeset {
        Changeset::Full { version, changes, seqs, .. } => {
            let applied: i64 = conn
                .query_row("SELECT count(*) FROM crsql_changes WHERE site_id = ? AND db_version = ?", rusqlite::params![c.actor_id, version], |r| r.get(0))
                .unwrap();
            let buffered: i64 = conn
                .query_row(
                    "SELECT count(*) FROM __corro_buffered_changes WHERE site_id = ? AND db_version = ? AND seq BETWEEN ? AND ?",
                    rusqlite::params![c.actor_id, version, seqs.start(), seqs.end()],
                    |r| r.get(0),
                )
                .unwrap();
            applied > 0 || buffered as usize == changes.len()
        }
        _ => true,
    })
    .await
}

fn run_case(w: &World, case: &Case) -> CaseResult {
    let s = Scratch::new("ing");
    let p = w.tpl.instantiate(&s.path().join("r"));
    let mut perf = PerfConfig::default();
    perf.processing_queue_len = case.queue_len;
    perf.apply_queue_len = case.apply_len;
    perf.apply_queue_timeout = 3_600_000; // the flush tick never fires: batching is decided by the loop alone
    perf.changes_channel_len = 1;
    let mut node = RtNode::open(&p, NodeOpts { perf, ..Default::default() });
    let suffix: Vec<ChangeV1> = case.suffix.iter().map(|s| w.sym(*s)).collect();
    let fillers = if case.idle { vec![] } else { w.fillers.clone() };
    let release_after = case.release_after;
    let idle = case.idle;
    let external_lock = case.external_lock;
    let db_path = p.clone();
    node.run(async |nd| {
        // start the real loop on the node's real channel
        let (_t, dummy) = bounded(1, "dummy");
        let rx = std::mem::replace(&mut nd.rx_changes, dummy);
        tokio::spawn(klukai_agent::verif::handle_changes(nd.agent.clone(), nd.bookie.clone(), rx, nd.tripwire.clone()));
        // the loop's flush interval fires once immediately, the first time the loop waits with an
        // empty channel; let that happen before the first offer so it cannot land mid-sequence
        // (it trims the seen-cache). Only this start-up wait uses the clock.
        tokio::time::sleep(Duration::from_millis(20)).await;
        rebaseline();
        let mut violations = vec![];
        // overload: hold the write connection, fill the five processing slots
        let mut guard = if idle { None } else { Some(nd.agent.pool().write_priority().await.unwrap()) };
        let ext = if external_lock {
            let c = rusqlite::Connection::open(&db_path).unwrap();
            c.execute_batch("BEGIN IMMEDIATE").unwrap();
            Some(c)
        } else {
            None
        };
        for f in &fillers {
            offer(nd, f.clone()).await;
        }
        for (i, c) in suffix.iter().enumerate() {
            if i == release_after {
                guard.take();
            }
            offer(nd, c.clone()).await;
            if idle && !external_lock {
                // idle pipeline: each offer is processed before the next arrives
                settle(nd).await;
                while nd.apply_one().await.is_some() {}
            }
        }
        guard.take();
        if let Some(c) = ext {
            // the batches run into the lock and fail after the connection's busy timeout (5 s)
            settle(nd).await;
            let _ = c.execute_batch("ROLLBACK");
            drop(c);
        }
        settle(nd).await;
        while nd.apply_one().await.is_some() {}
        // distinct offered changesets
        let mut offered: Vec<ChangeV1> = vec![];
        for c in fillers.iter().chain(suffix.iter()) {
            if !offered.contains(c) {
                offered.push(c.clone());
            }
        }
        let cleared: Vec<(klukai_types::actor::ActorId, u64)> = offered
            .iter()
            .filter_map(|c| match &c.changeset {
                Changeset::Empty { versions, .. } => Some((versions.start().0..=versions.end().0).map(|v| (c.actor_id, v)).collect::<Vec<_>>()),
                _ => None,
            })
            .flatten()
            .collect();
        let mut shed = 0;
        for c in &offered {
            let h = held(nd, c).await;
            if !h {
                shed += 1;
                if std::env::var("ING_DEBUG").is_ok() {
                    eprintln!("  shed: {} {:?} {:?}", c.actor_id, c.versions(), c.seqs());
                }
            } else if !stored(nd, c, &cleared).await {
                violations.push(("C10:claims-to-hold-a-changeset-it-did-not-store".to_string(), json!({"change": format!("{:?} {:?} {:?}", c.actor_id, c.versions(), c.seqs())})));
            }
        }
        // re-offer rounds, database idle
        let mut rounds_needed = 0;
        for round in 1..=3 {
            let mut missing = vec![];
            for c in &offered {
                if !held(nd, c).await {
                    missing.push(c.clone());
                }
            }
            if missing.is_empty() {
                break;
            }
            rounds_needed = round;
            for c in &offered {
                offer(nd, c.clone()).await;
            }
            settle(nd).await;
            while nd.apply_one().await.is_some() {}
        }
        let mut never = vec![];
        for c in &offered {
            if !held(nd, c).await {
                never.push(format!("{} {:?} {:?}", c.actor_id, c.versions(), c.seqs()));
            } else if !stored(nd, c, &cleared).await {
                violations.push(("C10:claims-to-hold-a-changeset-it-did-not-store".to_string(), json!({"change": format!("{:?} {:?} {:?}", c.actor_id, c.versions(), c.seqs())})));
            }
        }
        if !never.is_empty() {
            violations.push(("C10:changeset-not-accepted-after-3-reoffer-rounds".to_string(), json!({"never_held": never, "shed_during_overload": shed})));
        }
        let rows = nd.table_rows("t").await.len();
        CaseResult { violations, shed, rounds_needed, outcome: digest(&(shed, rounds_needed, rows)) }
    })
}

fn main() {
    let cli = parse_cli();
    let rep = Report::new("C10", cli.tier, cli.seed);
    sweep_stale_scratch();
    let w = World::new();
    if let Some(p) = &cli.replay {
        let r = load_replay(p);
        let case: Case = serde_json::from_value(r["case"].clone()).unwrap();
        let res = run_case(&w, &case);
        for (k, d) in &res.violations {
            println!("reproduced {k}: {d}");
        }
        std::process::exit(if res.violations.is_empty() { 0 } else { 1 });
    }
    fn seqs_over(alpha: &[Sym], maxlen: usize) -> Vec<Vec<Sym>> {
        let mut all: Vec<Vec<Sym>> = vec![];
        let mut cur: Vec<Vec<Sym>> = vec![vec![]];
        for _ in 0..maxlen {
            let mut next = vec![];
            for s in &cur {
                for a in alpha {
                    let mut t = s.clone();
                    t.push(*a);
                    next.push(t);
                }
            }
            all.extend(next.iter().cloned());
            cur = next;
        }
        all
    }
    let maxlen = cli.tier.pick(4, 5) as usize;
    let deadline = Instant::now() + Duration::from_secs(cli.tier.pick(300, 1500));
    let configs: Vec<(usize, usize)> = cli.tier.pick(vec![(2, 1), (3, 1)], vec![(2, 1), (3, 1), (4, 1), (3, 2)]);
    let mut cases: Vec<Case> = vec![];
    // overload family: only cases in which the seen-cache can never exceed the queue length (one key
    // for the fillers plus the keys of the suffix), see the soundness note at the top
    let mut skipped_trim_regime = 0u64;
    for suffix in seqs_over(&ALPHABET, maxlen) {
        let mut keys: Vec<(u8, u64)> = suffix.iter().flat_map(|s| s.keys()).collect();
        keys.sort();
        keys.dedup();
        let mut distinct = suffix.clone();
        distinct.sort_by_key(|s| *s as u8);
        distinct.dedup();
        for (q, a) in &configs {
            if 1 + keys.len() > *q {
                skipped_trim_regime += 1;
                continue;
            }
            // the queue can only overflow when more distinct changesets arrive than it holds
            if distinct.len() <= *q {
                continue;
            }
            let mut releases = vec![usize::MAX];
            if cli.tier == Tier::Thorough && suffix.len() >= 2 {
                releases.push(suffix.len() - 1);
            }
            for rel in releases {
                cases.push(Case { queue_len: *q, apply_len: *a, suffix: suffix.clone(), release_after: rel, idle: false, external_lock: false });
            }
        }
    }
    let overload_cases = cases.len();
    // idle family: the pipeline is never overloaded
    for suffix in seqs_over(&IDLE_ALPHABET, cli.tier.pick(3, 4) as usize) {
        cases.push(Case { queue_len: 3, apply_len: 1, suffix, release_after: usize::MAX, idle: true, external_lock: false });
    }
    let idle_cases = cases.len() - overload_cases;
    // failing batches: the database's write lock is held by another connection (a backup, a shell)
    // while the changesets arrive; few keys, so the periodic cache trim cannot fire here either
    let fail_alpha = [Sym::A1, Sym::A2a, Sym::EA2, Sym::B1];
    for suffix in seqs_over(&fail_alpha, cli.tier.pick(2, 3) as usize) {
        let mut keys: Vec<(u8, u64)> = suffix.iter().flat_map(|s| s.keys()).collect();
        keys.sort();
        keys.dedup();
        if keys.len() > 3 {
            continue;
        }
        cases.push(Case { queue_len: 3, apply_len: 1, suffix, release_after: usize::MAX, idle: true, external_lock: true });
    }
    let failing_batch_cases = cases.len() - overload_cases - idle_cases;
    // cases are independent executions (own node, own runtime): a few threads
    let execs_a = std::sync::atomic::AtomicU64::new(0);
    let shed_a = std::sync::atomic::AtomicU64::new(0);
    let skipped = std::sync::atomic::AtomicU64::new(0);
    let pool = rayon::ThreadPoolBuilder::new().num_threads(6).build().unwrap();
    pool.install(|| {
        use rayon::prelude::*;
        use std::sync::atomic::Ordering::Relaxed;
        cases.par_iter().for_each(|case| {
            if Instant::now() > deadline {
                skipped.fetch_add(1, Relaxed);
                return;
            }
            let res = run_case(&w, case);
            let n = execs_a.fetch_add(1, Relaxed) + 1;
            if !res.violations.is_empty() {
                // replay-twice rule
                let again = run_case(&w, case);
                let k1: Vec<&String> = res.violations.iter().map(|v| &v.0).collect();
                let k2: Vec<&String> = again.violations.iter().map(|v| &v.0).collect();
                if k1 != k2 {
                    let third = run_case(&w, case);
                    machinery_error(&format!("non-deterministic case {case:?}: {k1:?} vs {k2:?}; shed {} vs {} vs {}; rounds {} {} {}; third {:?}", res.shed, again.shed, third.shed, res.rounds_needed, again.rounds_needed, third.rounds_needed, third.violations.iter().map(|v| &v.0).collect::<Vec<_>>()));
                }
            }
            for (k, d) in res.violations {
                rep.violation(&k, json!({"case": case, "d": d}));
            }
            if res.shed > 0 {
                shed_a.fetch_add(1, Relaxed);
                rep.nontrivial(digest(&format!("{case:?}")));
            }
            rep.outcome(res.outcome);
            if n % 101 == 1 {
                rep.sample(json!({"case": case, "shed_during_overload": res.shed, "reoffer_rounds_needed": res.rounds_needed}));
            }
        });
    });
    let execs = execs_a.load(std::sync::atomic::Ordering::Relaxed);
    let shed_cases = shed_a.load(std::sync::atomic::Ordering::Relaxed);
    let sk = skipped.load(std::sync::atomic::Ordering::Relaxed);
    let capped = if sk > 0 { Some(format!("wall-clock cap: {sk} of {} cases not run", cases.len())) } else { None };
    rep.set("states", execs);
    rep.set("transitions", execs);
    rep.set("evaluations", execs);
    rep.set("traces_validated_against_impl", execs);
    rep.set("cases_with_shedding", shed_cases);
    rep.set("exhaustive", capped.is_none());
    if let Some(c) = capped {
        rep.set("cap_hit", c);
    }
    rep.set("overload_cases", overload_cases as u64);
    rep.set("idle_cases", idle_cases as u64);
    rep.set("failing_batch_cases", failing_batch_cases as u64);
    rep.set("overload_sequences_left_out_because_the_periodic_trim_could_fire", skipped_trim_regime);
    rep.set("bounds", json!({"fillers": "5 single-seq chunks of one version of a third actor", "alphabet": format!("{ALPHABET:?}"), "idle_alphabet": format!("{IDLE_ALPHABET:?}"), "suffix_len_max": maxlen, "(processing_queue_len, apply_queue_len)": configs,
        "busy_window": "write connection held during fillers and the whole suffix (thorough: also released before the last arrival)", "reoffer_rounds": 3}));
    rep.assume("apply_queue_timeout is set to one hour so the 10 ms flush tick never fires: which changes are batched, queued or dropped is decided by the loop's own rules, not by timing. The tick's other job, trimming the seen-cache when it holds more keys than processing_queue_len, can never fire in the explored overload cases: they are exactly those whose distinct (actor, version) keys (one for the five filler chunks plus the suffix's) do not exceed the queue length");
    rep.assume("the real handle_changes runs on the node's real tx_changes channel (capacity 1); two self-authored sentinels after each offer tell the harness that the loop has handled it");
    rep.require_nontrivial(20, "a case is non-trivial when at least one offered changeset was shed or suppressed during the overload (not held when the overload ended)");
    rep.finish();
}

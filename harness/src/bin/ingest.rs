//! E6 `ingest` (C10): the real `handle_changes` loop (real channel, JoinSet, seen-cache) on a real
//! node, driven through `tx_changes`. Overload is made deterministic: the harness holds the write
//! connection, five filler changesets occupy the five processing slots, then every arrival
//! sequence over a colliding alphabet is offered so the bounded queue overflows; afterwards every
//! offered changeset is re-offered (as sync does) for at most three rounds.

use klukai_types::actor::ActorId;
use klukai_types::api::Statement;
use klukai_types::base::CrsqlDbVersion;
use klukai_types::broadcast::{ChangeSource, ChangeV1, Changeset};
use klukai_types::channel::bounded;
use klukai_types::config::PerfConfig;
use serde_json::{Value, json};
use std::collections::BTreeMap;
use std::time::{Duration, Instant};
use vh::vcore::*;
use vh::vnode::*;

const SCHEMA: &str = "CREATE TABLE t (id INTEGER PRIMARY KEY NOT NULL, a TEXT NOT NULL DEFAULT '', b TEXT NOT NULL DEFAULT '');";

/// symbols of the explored suffix
#[derive(Clone, Copy, Debug, PartialEq, Eq, Hash, serde::Serialize, serde::Deserialize)]
enum Sym {
    A1,
    A2,
    B1,
    B2,
    /// first / second chunk of A's version 3 (two seqs)
    A3a,
    A3b,
    /// first chunk of B's version 3
    B3a,
    /// empty changeset for A's version 4
    EA,
}
const ALPHABET: [Sym; 8] = [Sym::A1, Sym::A2, Sym::B1, Sym::B2, Sym::A3a, Sym::A3b, Sym::B3a, Sym::EA];

struct World {
    tpl: Template,
    a: Vec<ChangeV1>, // versions 1..=3 of actor A (complete)
    b: Vec<ChangeV1>,
    fillers: Vec<ChangeV1>, // versions 1..=5 of actor C
    actor_a: ActorId,
}

fn write_versions(idx: usize, n: u64, base: u64) -> Vec<ChangeV1> {
    let tpl = Template::build(idx, SCHEMA);
    let s = Scratch::new("ingw");
    let p = tpl.instantiate(&s.path().join("w"));
    let mut w = RtNode::open(&p, NodeOpts::default());
    let mut out = vec![];
    for i in 1..=n {
        let id = base + i;
        let (st, body, bc) = w.run(async |nd| {
            nd.write(vec![Statement::Simple(format!("INSERT INTO t (id,a,b) VALUES ({id},'a{id}','b{id}')"))], None).await
        });
        assert_eq!(st, 200);
        assert_eq!(body.version, Some(i));
        assert_eq!(bc.len(), 1);
        out.push(bc[0].clone());
    }
    out
}

fn chunk(c: &ChangeV1, i: u64, j: u64) -> ChangeV1 {
    if let Changeset::Full { version, changes, last_seq, ts, .. } = &c.changeset {
        full(c.actor_id, version.0, changes.iter().filter(|x| x.seq.0 >= i && x.seq.0 <= j).cloned().collect(), i..=j, last_seq.0, *ts)
    } else {
        unreachable!()
    }
}

impl World {
    fn new() -> World {
        World {
            tpl: Template::build(3, SCHEMA),
            a: write_versions(0, 3, 100),
            b: write_versions(1, 3, 200),
            fillers: write_versions(2, 5, 300),
            actor_a: site_id(0),
        }
    }
    fn sym(&self, s: Sym) -> ChangeV1 {
        match s {
            Sym::A1 => self.a[0].clone(),
            Sym::A2 => self.a[1].clone(),
            Sym::B1 => self.b[0].clone(),
            Sym::B2 => self.b[1].clone(),
            Sym::A3a => chunk(&self.a[2], 0, 0),
            Sym::A3b => chunk(&self.a[2], 1, 1),
            Sym::B3a => chunk(&self.b[2], 0, 0),
            Sym::EA => empty(self.actor_a, 4..=4),
        }
    }
}

#[derive(Debug, Clone, serde::Serialize, serde::Deserialize)]
struct Case {
    queue_len: usize,
    apply_len: usize,
    suffix: Vec<Sym>,
    /// release the database after this many suffix arrivals (usize::MAX: after all)
    release_after: usize,
}

struct CaseResult {
    violations: Vec<(String, Value)>,
    shed: usize,
    rounds_needed: usize,
    outcome: u64,
}

async fn offer(nd: &Node, c: ChangeV1) {
    let own = nd.actor_id();
    nd.agent.tx_changes().send((c, ChangeSource::Sync)).await.unwrap();
    // two self-authored sentinels: when the second is accepted the offer has been handled
    for _ in 0..2 {
        nd.agent.tx_changes().send((empty(own, 1..=1), ChangeSource::Sync)).await.unwrap();
    }
}

async fn settle(nd: &Node) {
    let own = nd.actor_id();
    let start = Instant::now();
    loop {
        nd.quiesce().await;
        for _ in 0..2 {
            nd.agent.tx_changes().send((empty(own, 1..=1), ChangeSource::Sync)).await.unwrap();
        }
        tokio::task::yield_now().await;
        if alive_tasks() <= baseline() {
            // stable across a full turn of the loop
            nd.quiesce().await;
            for _ in 0..2 {
                nd.agent.tx_changes().send((empty(own, 1..=1), ChangeSource::Sync)).await.unwrap();
            }
            if alive_tasks() <= baseline() {
                return;
            }
        }
        if start.elapsed() > Duration::from_secs(30) {
            machinery_error("ingest pipeline did not settle");
        }
    }
}

async fn held(nd: &Node, c: &ChangeV1) -> bool {
    let booked = nd.bookie.read::<&str, _>("verif", None).await.get(&c.actor_id).cloned();
    match booked {
        Some(b) => b.read::<&str, _>("verif", None).await.contains_all(c.versions(), c.seqs()),
        None => false,
    }
}

/// is what the node claims about `c` actually stored?
async fn stored(nd: &Node, c: &ChangeV1) -> bool {
    let c = c.clone();
    nd.read(move |conn| match &c.changeset {
        Changeset::Full { version, changes, seqs, .. } => {
            let applied: i64 = conn
                .query_row("SELECT count(*) FROM crsql_changes WHERE site_id = ? AND db_version = ?", rusqlite::params![c.actor_id, version], |r| r.get(0))
                .unwrap();
            let buffered: i64 = conn
                .query_row(
                    "SELECT count(*) FROM __corro_buffered_changes WHERE site_id = ? AND db_version = ? AND seq BETWEEN ? AND ?",
                    rusqlite::params![c.actor_id, version, seqs.start(), seqs.end()],
                    |r| r.get(0),
                )
                .unwrap();
            applied > 0 || buffered as usize == changes.len()
        }
        _ => true,
    })
    .await
}

fn run_case(w: &World, case: &Case) -> CaseResult {
    let s = Scratch::new("ing");
    let p = w.tpl.instantiate(&s.path().join("r"));
    let mut perf = PerfConfig::default();
    perf.processing_queue_len = case.queue_len;
    perf.apply_queue_len = case.apply_len;
    perf.apply_queue_timeout = 3_600_000; // the flush tick never fires: batching is decided by the loop alone
    perf.changes_channel_len = 1;
    let mut node = RtNode::open(&p, NodeOpts { perf, ..Default::default() });
    let suffix: Vec<ChangeV1> = case.suffix.iter().map(|s| w.sym(*s)).collect();
    let fillers = w.fillers.clone();
    let release_after = case.release_after;
    node.run(async |nd| {
        // start the real loop on the node's real channel
        let (_t, dummy) = bounded(1, "dummy");
        let rx = std::mem::replace(&mut nd.rx_changes, dummy);
        tokio::spawn(klukai_agent::verif::handle_changes(nd.agent.clone(), nd.bookie.clone(), rx, nd.tripwire.clone()));
        // the loop's flush interval fires once immediately, the first time the loop waits with an
        // empty channel; let that happen before the first offer so it cannot land mid-sequence
        // (it trims the seen-cache). Only this start-up wait uses the clock.
        tokio::time::sleep(Duration::from_millis(20)).await;
        rebaseline();
        let mut violations = vec![];
        // overload: hold the write connection, fill the five processing slots
        let mut guard = Some(nd.agent.pool().write_priority().await.unwrap());
        for f in &fillers {
            offer(nd, f.clone()).await;
        }
        for (i, c) in suffix.iter().enumerate() {
            if i == release_after {
                guard.take();
            }
            offer(nd, c.clone()).await;
        }
        guard.take();
        settle(nd).await;
        while nd.apply_one().await.is_some() {}
        // distinct offered changesets
        let mut offered: Vec<ChangeV1> = vec![];
        for c in fillers.iter().chain(suffix.iter()) {
            if !offered.contains(c) {
                offered.push(c.clone());
            }
        }
        let mut shed = 0;
        for c in &offered {
            let h = held(nd, c).await;
            if !h {
                shed += 1;
                if std::env::var("ING_DEBUG").is_ok() {
                    eprintln!("  shed: {} {:?} {:?}", c.actor_id, c.versions(), c.seqs());
                }
            } else if !stored(nd, c).await {
                violations.push(("C10:claims-to-hold-a-changeset-it-did-not-store".to_string(), json!({"change": format!("{:?} {:?} {:?}", c.actor_id, c.versions(), c.seqs())})));
            }
        }
        // re-offer rounds, database idle
        let mut rounds_needed = 0;
        for round in 1..=3 {
            let mut missing = vec![];
            for c in &offered {
                if !held(nd, c).await {
                    missing.push(c.clone());
                }
            }
            if missing.is_empty() {
                break;
            }
            rounds_needed = round;
            for c in &offered {
                offer(nd, c.clone()).await;
            }
            settle(nd).await;
            while nd.apply_one().await.is_some() {}
        }
        let mut never = vec![];
        for c in &offered {
            if !held(nd, c).await {
                never.push(format!("{} {:?} {:?}", c.actor_id, c.versions(), c.seqs()));
            } else if !stored(nd, c).await {
                violations.push(("C10:claims-to-hold-a-changeset-it-did-not-store".to_string(), json!({"change": format!("{:?} {:?} {:?}", c.actor_id, c.versions(), c.seqs())})));
            }
        }
        if !never.is_empty() {
            violations.push(("C10:changeset-not-accepted-after-3-reoffer-rounds".to_string(), json!({"never_held": never, "shed_during_overload": shed})));
        }
        let rows = nd.table_rows("t").await.len();
        CaseResult { violations, shed, rounds_needed, outcome: digest(&(shed, rounds_needed, rows)) }
    })
}

fn main() {
    let cli = parse_cli();
    let rep = Report::new("C10", cli.tier, cli.seed);
    sweep_stale_scratch();
    let w = World::new();
    if let Some(p) = &cli.replay {
        let r = load_replay(p);
        let case: Case = serde_json::from_value(r["case"].clone()).unwrap();
        let res = run_case(&w, &case);
        for (k, d) in &res.violations {
            println!("reproduced {k}: {d}");
        }
        std::process::exit(if res.violations.is_empty() { 0 } else { 1 });
    }
    let maxlen = cli.tier.pick(3, 4);
    let mut suffixes: Vec<Vec<Sym>> = vec![vec![]];
    let mut cur: Vec<Vec<Sym>> = vec![vec![]];
    for _ in 0..maxlen {
        let mut next = vec![];
        for s in &cur {
            for a in ALPHABET {
                let mut t = s.clone();
                t.push(a);
                next.push(t);
            }
        }
        suffixes.extend(next.iter().cloned());
        cur = next;
    }
    let deadline = Instant::now() + Duration::from_secs(cli.tier.pick(300, 1500));
    let configs: Vec<(usize, usize)> = cli.tier.pick(vec![(1, 1), (2, 1)], vec![(1, 1), (2, 1), (3, 1), (1, 2), (2, 2)]);
    // all cases, shortest suffix first
    let mut cases: Vec<Case> = vec![];
    for suffix in &suffixes {
        for (q, a) in &configs {
            // the queue can only overflow when the suffix is longer than it
            if suffix.len() <= *q && !suffix.is_empty() {
                continue;
            }
            let mut releases = vec![usize::MAX];
            if cli.tier == Tier::Thorough && suffix.len() >= 2 {
                releases.push(suffix.len() - 1);
            }
            for rel in releases {
                cases.push(Case { queue_len: *q, apply_len: *a, suffix: suffix.clone(), release_after: rel });
            }
        }
    }
    // cases are independent executions (own node, own runtime): a few threads
    let execs_a = std::sync::atomic::AtomicU64::new(0);
    let shed_a = std::sync::atomic::AtomicU64::new(0);
    let skipped = std::sync::atomic::AtomicU64::new(0);
    let pool = rayon::ThreadPoolBuilder::new().num_threads(6).build().unwrap();
    pool.install(|| {
        use rayon::prelude::*;
        use std::sync::atomic::Ordering::Relaxed;
        cases.par_iter().for_each(|case| {
            if Instant::now() > deadline {
                skipped.fetch_add(1, Relaxed);
                return;
            }
            let res = run_case(&w, case);
            let n = execs_a.fetch_add(1, Relaxed) + 1;
            if !res.violations.is_empty() {
                // replay-twice rule
                let again = run_case(&w, case);
                let k1: Vec<&String> = res.violations.iter().map(|v| &v.0).collect();
                let k2: Vec<&String> = again.violations.iter().map(|v| &v.0).collect();
                if k1 != k2 {
                    let third = run_case(&w, case);
                    machinery_error(&format!("non-deterministic case {case:?}: {k1:?} vs {k2:?}; shed {} vs {} vs {}; rounds {} {} {}; third {:?}", res.shed, again.shed, third.shed, res.rounds_needed, again.rounds_needed, third.rounds_needed, third.violations.iter().map(|v| &v.0).collect::<Vec<_>>()));
                }
            }
            for (k, d) in res.violations {
                rep.violation(&k, json!({"case": case, "d": d}));
            }
            if res.shed > 0 {
                shed_a.fetch_add(1, Relaxed);
                rep.nontrivial(digest(&format!("{case:?}")));
            }
            rep.outcome(res.outcome);
            if n % 101 == 1 {
                rep.sample(json!({"case": case, "shed_during_overload": res.shed, "reoffer_rounds_needed": res.rounds_needed}));
            }
        });
    });
    let execs = execs_a.load(std::sync::atomic::Ordering::Relaxed);
    let shed_cases = shed_a.load(std::sync::atomic::Ordering::Relaxed);
    let sk = skipped.load(std::sync::atomic::Ordering::Relaxed);
    let capped = if sk > 0 { Some(format!("wall-clock cap: {sk} of {} cases not run", cases.len())) } else { None };
    rep.set("states", execs);
    rep.set("transitions", execs);
    rep.set("evaluations", execs);
    rep.set("traces_validated_against_impl", execs);
    rep.set("cases_with_shedding", shed_cases);
    rep.set("exhaustive", capped.is_none());
    if let Some(c) = capped {
        rep.set("cap_hit", c);
    }
    rep.set("bounds", json!({"fillers": 5, "alphabet": format!("{ALPHABET:?}"), "suffix_len_max": maxlen, "(processing_queue_len, apply_queue_len)": configs,
        "busy_window": "write connection held during fillers and the whole suffix (thorough: also released before the last arrival)", "reoffer_rounds": 3}));
    rep.assume("apply_queue_timeout is set to one hour so the 10 ms flush tick never fires: which changes are batched, queued or dropped is decided by the loop's own rules, not by timing");
    rep.assume("the real handle_changes runs on the node's real tx_changes channel (capacity 1); two self-authored sentinels after each offer tell the harness that the loop has handled it");
    rep.require_nontrivial(20, "a case is non-trivial when at least one offered changeset was shed or suppressed during the overload (not held when the overload ended)");
    rep.finish();
}

//! E10 `members` (C18): stateright BFS whose transition function calls the real
//! `Members::{add_member, remove_member, add_rtt}`; oracle = fold-by-newest reference model.

use klukai_types::actor::{Actor, ActorId, ClusterId};
use klukai_types::broadcast::Timestamp;
use klukai_types::members::{MemberState, Members, Rtt};
use serde_json::json;
use stateright::{Checker, Model, Property};
use std::collections::BTreeMap;
use std::net::SocketAddr;
use std::time::Duration;
use vh::vcore::*;

const RING_BUCKETS: [std::ops::Range<u64>; 6] = [0..6, 6..15, 15..50, 50..100, 100..200, 200..300];

fn addr(i: u8) -> SocketAddr {
    format!("10.0.0.{}:7000", i + 1).parse().unwrap()
}
fn actor_id(i: u8) -> ActorId {
    ActorId::from_bytes([i + 1; 16])
}
fn ts(n: u8) -> Timestamp {
    Timestamp::from(uhlc::NTP64::from(Duration::from_secs(1_700_000_000 + n as u64)))
}

/// identity table: (actor, ts) -> (addr index, cluster)
type Table = Vec<Vec<(u8, u16)>>; // [actor][ts-1]

#[derive(Clone, Debug, PartialEq, Eq, Hash)]
struct St {
    table: Table,
    // ---- implementation state (the three public maps of `Members`), canonical order
    states: Vec<(u8, u8, u8, u16, Option<u8>)>, // actor, addr, ts, cluster, ring
    by_addr: Vec<(u8, u8)>,                     // addr -> actor
    rtts: Vec<(u8, Vec<u64>)>,                  // addr -> samples (front = newest)
    // ---- ghost state of the reference model, per actor
    newest: Vec<u8>,         // highest identity ts seen (0 = none)
    newest_up: Vec<bool>,    // last notification about `newest` was an up
    max_down: Vec<u8>,       // highest ts reported down (0 = none)
    was_up: Vec<u8>,         // bitmask of identities (ts) reported up at least once
}

#[derive(Clone, Debug, PartialEq, Eq, Hash)]
enum Act {
    Up(u8, u8),
    Down(u8, u8),
    Rtt(u8, u64),
}

struct M {
    tables: Vec<Table>,
    n_ts: u8,
    rtt_addrs: Vec<u8>,
    rtt_vals: Vec<u64>,
    max_samples: Vec<usize>, // per rtt address
}

fn to_members(s: &St) -> Members {
    let mut m = Members::default();
    for (a, ad, t, c, ring) in &s.states {
        let mut ms = MemberState::new(addr(*ad), ts(*t), ClusterId(*c));
        ms.ring = *ring;
        m.states.insert(actor_id(*a), ms);
    }
    for (ad, a) in &s.by_addr {
        m.by_addr.insert(addr(*ad), actor_id(*a));
    }
    for (ad, samples) in &s.rtts {
        let mut r = Rtt::default();
        for v in samples.iter().rev() {
            r.buf.push_front(*v);
        }
        m.rtts.insert(addr(*ad), r);
    }
    m
}

fn from_members(m: &Members, s: &mut St) {
    let aidx = |id: &ActorId| id.to_bytes()[0] - 1;
    let adidx = |a: &SocketAddr| match a {
        SocketAddr::V4(v) => v.ip().octets()[3] - 1,
        _ => unreachable!(),
    };
    let tsidx = |t: &Timestamp| (t.0.as_secs() - 1_700_000_000) as u8;
    s.states = m
        .states
        .iter()
        .map(|(id, st)| (aidx(id), adidx(&st.addr), tsidx(&st.ts), st.cluster_id.0, st.ring))
        .collect();
    s.by_addr = m.by_addr.iter().map(|(a, id)| (adidx(a), aidx(id))).collect();
    s.rtts = m
        .rtts
        .iter()
        .map(|(a, r)| {
            // canonical order: every use of the buffer (sum, len, min) is order-insensitive
            let mut v: Vec<u64> = r.buf.iter().copied().collect();
            v.sort();
            (adidx(a), v)
        })
        .collect();
}

impl M {
    fn actor_of(&self, s: &St, a: u8, t: u8) -> Actor {
        let (ad, c) = s.table[a as usize][(t - 1) as usize];
        Actor::new(actor_id(a), addr(ad), ts(t), ClusterId(c))
    }
}

impl Model for M {
    type State = St;
    type Action = Act;

    fn init_states(&self) -> Vec<St> {
        self.tables
            .iter()
            .map(|t| St {
                table: t.clone(),
                states: vec![],
                by_addr: vec![],
                rtts: vec![],
                newest: vec![0; t.len()],
                newest_up: vec![false; t.len()],
                max_down: vec![0; t.len()],
                was_up: vec![0; t.len()],
            })
            .collect()
    }

    fn actions(&self, s: &St, out: &mut Vec<Act>) {
        for a in 0..s.table.len() as u8 {
            for t in 1..=self.n_ts.min(s.table[a as usize].len() as u8) {
                // SWIM restriction: an 'up' never carries an identity older than one reported down
                if t >= s.max_down[a as usize] {
                    out.push(Act::Up(a, t));
                }
                // a 'down' is only emitted about an identity that was announced up before
                if s.was_up[a as usize] & (1 << t) != 0 {
                    out.push(Act::Down(a, t));
                }
            }
        }
        for ad in &self.rtt_addrs {
            let n = s.rtts.iter().find(|(x, _)| x == ad).map(|(_, v)| v.len()).unwrap_or(0);
            if n < self.max_samples[*ad as usize] {
                for v in &self.rtt_vals {
                    out.push(Act::Rtt(*ad, *v));
                }
            }
        }
    }

    fn next_state(&self, s: &St, act: Act) -> Option<St> {
        let mut m = to_members(s);
        let mut n = s.clone();
        match act {
            Act::Up(a, t) => {
                let actor = self.actor_of(s, a, t);
                m.add_member(&actor);
                let i = a as usize;
                n.was_up[i] |= 1 << t;
                if t > n.newest[i] {
                    n.newest[i] = t;
                    n.newest_up[i] = true;
                } else if t == n.newest[i] {
                    n.newest_up[i] = true;
                }
            }
            Act::Down(a, t) => {
                let actor = self.actor_of(s, a, t);
                m.remove_member(&actor);
                let i = a as usize;
                n.max_down[i] = n.max_down[i].max(t);
                if t > n.newest[i] {
                    n.newest[i] = t;
                    n.newest_up[i] = false;
                } else if t == n.newest[i] {
                    n.newest_up[i] = false;
                }
            }
            Act::Rtt(ad, v) => {
                m.add_rtt(addr(ad), Duration::from_millis(v));
            }
        }
        from_members(&m, &mut n);
        Some(n)
    }

    fn properties(&self) -> Vec<Property<Self>> {
        vec![
            Property::<Self>::always("presence", |_, s| presence_ok(s)),
            Property::<Self>::always("identity", |_, s| identity_ok(s)),
            Property::<Self>::always("ring-uses-former-address-after-identity-renewal", |_, s| {
                ring_ok(s) != Some("ring-uses-former-address-after-identity-renewal")
            }),
            Property::<Self>::always("ring-kept-when-average-outside-all-buckets", |_, s| {
                ring_ok(s) != Some("ring-kept-when-average-outside-all-buckets")
            }),
            Property::<Self>::always("ring-mismatch", |_, s| ring_ok(s) != Some("ring-mismatch")),
        ]
    }
}

fn presence_ok(s: &St) -> bool {
    for a in 0..s.table.len() as u8 {
        let listed = s.states.iter().any(|x| x.0 == a);
        let want = s.newest[a as usize] > 0 && s.newest_up[a as usize];
        if listed != want {
            return false;
        }
    }
    true
}

fn identity_ok(s: &St) -> bool {
    for (a, ad, t, c, _) in &s.states {
        let i = *a as usize;
        if !(s.newest[i] > 0 && s.newest_up[i]) {
            continue; // judged by `presence`
        }
        let (wad, wc) = s.table[i][(s.newest[i] - 1) as usize];
        if *t != s.newest[i] || *ad != wad || *c != wc {
            return false;
        }
    }
    true
}

fn expected_ring(s: &St, ad: u8) -> Option<u8> {
    let samples = s.rtts.iter().find(|(x, _)| *x == ad).map(|(_, v)| v.clone())?;
    if samples.is_empty() {
        return None;
    }
    let avg = samples.iter().sum::<u64>() / samples.len() as u64;
    RING_BUCKETS.iter().position(|b| b.contains(&avg)).map(|p| p as u8)
}

/// Returns a violation class (named after the cause visible in the state), or None.
fn ring_ok(s: &St) -> Option<&'static str> {
    // only judged on members whose identity is right (others are judged by `identity`)
    for (a, ad, t, _c, ring) in &s.states {
        let i = *a as usize;
        if *t != s.newest[i] || *ad != s.table[i][(s.newest[i] - 1) as usize].0 {
            continue;
        }
        let want = expected_ring(s, *ad);
        // observable contract: ring-0 membership, and the bucket when one applies
        let bad = (*ring == Some(0)) != (want == Some(0)) || (want.is_some() && *ring != want);
        if bad {
            let index_ok = s.by_addr.iter().any(|(x, y)| x == ad && y == a)
                && !s.by_addr.iter().any(|(x, y)| x != ad && y == a);
            let has_samples = s.rtts.iter().any(|(x, v)| x == ad && !v.is_empty());
            return Some(if !index_ok {
                "ring-uses-former-address-after-identity-renewal"
            } else if has_samples && want.is_none() {
                "ring-kept-when-average-outside-all-buckets"
            } else {
                "ring-mismatch"
            });
        }
    }
    None
}

/// `Members::ring0` agrees with the per-member rings (checked on every visited state).
fn ring0_api_ok(s: &St) -> bool {
    let m = to_members(s);
    for c in 0..2u16 {
        let mut got: Vec<SocketAddr> = m.ring0(ClusterId(c)).collect();
        got.sort();
        let mut want: Vec<SocketAddr> = s
            .states
            .iter()
            .filter(|x| x.3 == c && x.4 == Some(0))
            .map(|x| addr(x.1))
            .collect();
        want.sort();
        if got != want {
            return false;
        }
    }
    true
}

fn tables(tier: Tier) -> Vec<Table> {
    // actor 0: ts 1..=3, addr in {0,1}, cluster in {0,1}; actor 1: ts 1..=2, addr 2, cluster in {0,1}
    let opts0: Vec<(u8, u16)> = vec![(0, 0), (1, 0), (0, 1), (1, 1)];
    let mut out = vec![];
    for x1 in &opts0 {
        for x2 in &opts0 {
            for x3 in &opts0 {
                let a0 = vec![*x1, *x2, *x3];
                match tier {
                    Tier::Quick => {
                        out.push(vec![a0.clone(), vec![(2, 0), (2, 1)]]);
                    }
                    Tier::Thorough => {
                        for c1 in 0..2u16 {
                            for c2 in 0..2u16 {
                                out.push(vec![a0.clone(), vec![(2, c1), (2, c2)]]);
                            }
                        }
                    }
                }
            }
        }
    }
    out
}

fn mk_model(tier: Tier, tables: Vec<Table>) -> M {
    M {
        tables,
        n_ts: 3,
        rtt_addrs: vec![0, 1, 2],
        rtt_vals: tier.pick(vec![1, 1000], vec![1, 40, 1000]),
        max_samples: tier.pick(vec![2, 1, 0], vec![2, 2, 1]),
    }
}

fn main() {
    let cli = parse_cli();
    let rep = Report::new("C18", cli.tier, cli.seed);
    let model = mk_model(cli.tier, tables(cli.tier));

    if let Some(p) = &cli.replay {
        let r = load_replay(p);
        let table: Table = serde_json::from_value(r["table"].clone()).unwrap();
        let acts: Vec<(String, u8, u64)> = serde_json::from_value(r["actions"].clone()).unwrap();
        let mut s = M { tables: vec![table], ..model }.init_states().remove(0);
        let m = M { tables: vec![], n_ts: 3, rtt_addrs: vec![], rtt_vals: vec![], max_samples: vec![] };
        for (k, a, b) in acts {
            let act = match k.as_str() {
                "up" => Act::Up(a, b as u8),
                "down" => Act::Down(a, b as u8),
                _ => Act::Rtt(a, b),
            };
            s = m.next_state(&s, act).unwrap();
        }
        println!("final: {s:?}");
        println!("presence_ok={} identity_ok={} ring={:?}", presence_ok(&s), identity_ok(&s), ring_ok(&s));
        std::process::exit(if presence_ok(&s) && identity_ok(&s) && ring_ok(&s).is_none() { 0 } else { 1 });
    }

    let ntables = model.tables.len();
    let checker = model.checker().threads(16).spawn_bfs().join();
    let states = checker.unique_state_count();
    rep.set("states", states as u64);
    rep.set("transitions", checker.state_count() as u64);
    rep.set("traces_validated_against_impl", states as u64);
    rep.set("exhaustive", checker.is_done());
    rep.set("identity_tables", ntables as u64);
    rep.set("bounds", json!({"actors":2,"identity_ts":"actor0: 1..=3, actor1: 1..=2","addresses":"actor0 in {a,b}, actor1 {c}","clusters":[0,1],
        "rtt_values_ms": cli.tier.pick(vec![1, 1000], vec![1, 40, 1000]), "max_samples_per_addr(a,b,c)": cli.tier.pick(vec![2, 1, 0], vec![2, 2, 1])}));
    rep.assume("an identity (actor, ts) has one fixed address and cluster; distinct actors never share an address (SWIM resolves address conflicts before notifying)");
    rep.assume("a 'down' is only emitted about an identity that was announced 'up' before; an 'up' never carries an identity older than one already reported down");
    rep.assume("the transition function is the real Members::{add_member, remove_member, add_rtt}; the state is the three public maps rebuilt into a Members per transition");

    let mk_replay = |path: &stateright::Path<St, Act>| {
        let states = path.clone().into_states();
        let acts: Vec<_> = path
            .clone()
            .into_actions()
            .iter()
            .map(|a| match a {
                Act::Up(a, t) => json!(["up", a, t]),
                Act::Down(a, t) => json!(["down", a, t]),
                Act::Rtt(a, v) => json!(["rtt", a, v]),
            })
            .collect();
        let last = states.last().unwrap().clone();
        (json!({"table": last.table, "actions": acts, "final_states": format!("{:?}", last.states),
                "final_by_addr": format!("{:?}", last.by_addr), "final_rtts": format!("{:?}", last.rtts)}), last)
    };
    for (name, path) in checker.discoveries() {
        // stateright keeps the *last* violating state it met; derive the shortest counterexample
        // with a plain FIFO search restricted to the discovery's identity table.
        let table = path.clone().into_states()[0].table.clone();
        let m1 = mk_model(cli.tier, vec![table.clone()]);
        let pred: Box<dyn Fn(&St) -> bool> = match name {
            "presence" => Box::new(|s| !presence_ok(s)),
            "identity" => Box::new(|s| !identity_ok(s)),
            other => {
                let o = other.to_string();
                Box::new(move |s| ring_ok(s) == Some(o.as_str()))
            }
        };
        let replay = match shortest(&m1, &*pred) {
            Some((acts, last)) => json!({"table": table, "actions": acts.iter().map(act_json).collect::<Vec<_>>(),
                "final_states(actor,addr,ts,cluster,ring)": format!("{:?}", last.states),
                "final_by_addr": format!("{:?}", last.by_addr), "final_rtts": format!("{:?}", last.rtts)}),
            None => mk_replay(&path).0,
        };
        rep.violation(&format!("members:{name}"), replay);
    }
    // ring0() API agreement + vacuity counters over a plain re-walk of a sample of states is not
    // possible through the checker API; instead count non-trivial discoveries by a dedicated walk.
    let (nt, api_bad, outcomes, sample) = walk_stats(&cli);
    for d in nt {
        rep.nontrivial(d);
    }
    for o in outcomes {
        rep.outcome(o);
    }
    if let Some(s) = api_bad {
        rep.violation("members:ring0-api-disagrees-with-rings", json!({"state": format!("{s:?}")}));
    }
    for s in sample {
        rep.sample(s);
    }
    rep.require_nontrivial(50, "distinct reachable states in which an identity was renewed (>=2 identities of one actor seen) and an RTT sample exists for a current or former address");
    rep.finish();
}

fn act_json(a: &Act) -> serde_json::Value {
    match a {
        Act::Up(a, t) => json!(["up", a, t]),
        Act::Down(a, t) => json!(["down", a, t]),
        Act::Rtt(a, v) => json!(["rtt", a, v]),
    }
}

/// FIFO search for the shortest action sequence reaching a state satisfying `bad`.
fn shortest(m: &M, bad: &dyn Fn(&St) -> bool) -> Option<(Vec<Act>, St)> {
    let mut seen = std::collections::HashSet::new();
    let mut q = std::collections::VecDeque::new();
    for s in m.init_states() {
        seen.insert(digest(&s));
        q.push_back((s, Vec::<Act>::new()));
    }
    while let Some((s, path)) = q.pop_front() {
        let mut acts = vec![];
        m.actions(&s, &mut acts);
        for a in acts {
            let n = m.next_state(&s, a.clone()).unwrap();
            let mut p = path.clone();
            p.push(a);
            if bad(&n) {
                return Some((p, n));
            }
            if seen.insert(digest(&n)) {
                q.push_back((n, p));
            }
        }
    }
    None
}

/// Own BFS over one identity table (the first with an address change) to measure vacuity
/// counters and to check `ring0()` on every state.
fn walk_stats(cli: &Cli) -> (Vec<u64>, Option<St>, Vec<u64>, Vec<serde_json::Value>) {
    let m = mk_model(cli.tier, vec![vec![vec![(0, 0), (1, 0), (1, 1)], vec![(2, 0), (2, 1)]]]);
    let mut seen: BTreeMap<u64, ()> = BTreeMap::new();
    let mut frontier = m.init_states();
    let mut nt = vec![];
    let mut outcomes = vec![];
    let mut bad = None;
    let mut samples = vec![];
    for s in &frontier {
        seen.insert(digest(s), ());
    }
    while let Some(s) = frontier.pop() {
        let mut acts = vec![];
        m.actions(&s, &mut acts);
        for a in acts {
            let n = m.next_state(&s, a.clone()).unwrap();
            let d = digest(&n);
            if seen.insert(d, ()).is_none() {
                if !ring0_api_ok(&n) && bad.is_none() {
                    bad = Some(n.clone());
                }
                let renewed = n.was_up[0].count_ones() >= 2;
                if renewed && !n.rtts.is_empty() {
                    nt.push(d);
                }
                outcomes.push(digest(&(n.states.clone(), n.by_addr.clone())));
                if samples.len() < 3 && renewed && !n.rtts.is_empty() && n.states.len() == 2 {
                    samples.push(json!({"last_action": format!("{a:?}"), "states(actor,addr,ts,cluster,ring)": format!("{:?}", n.states), "by_addr": format!("{:?}", n.by_addr), "rtts": format!("{:?}", n.rtts)}));
                }
                frontier.push(n);
            }
        }
    }
    (nt, bad, outcomes, samples)
}

use vh::vnode::*;
fn main() {
    let schema = "CREATE TABLE t (id INTEGER PRIMARY KEY NOT NULL, a TEXT NOT NULL DEFAULT '', b TEXT NOT NULL DEFAULT '');";
    let tpl0 = Template::build(0, schema);
    let s = Scratch::new("smoke");
    for par in [1usize, 4, 8] {
        let t = std::time::Instant::now();
        std::thread::scope(|sc| {
            for th in 0..par {
                let tpl0 = &tpl0;
                let s = &s;
                sc.spawn(move || {
                    for i in 0..6 {
                        let p0 = tpl0.instantiate(&s.path().join(format!("n{par}_{th}_{i}")));
                        let mut f = FullNode::start(&p0).unwrap();
                        let _ = f.run(async |nd| nd.sync_state().await);
                        drop(f);
                    }
                });
            }
        });
        println!("par {par}: {:?} per start", t.elapsed() / (6 * par as u32));
    }
}

use vh::vnode::*;
fn main() {
    let schema = "CREATE TABLE t (id INTEGER PRIMARY KEY NOT NULL, a TEXT NOT NULL DEFAULT '', b TEXT NOT NULL DEFAULT '');";
    let tpl0 = Template::build(0, schema);
    let n = 200;
    let t = std::time::Instant::now();
    for _ in 0..n {
        let rt = new_runtime(2);
        let s = Scratch::new("smoke");
        rt.block_on(async {
            let p0 = tpl0.instantiate(&s.path().join("n0"));
            let n0 = Node::open(&p0, NodeOpts::default()).await;
            drop(n0);
        });
        drop(rt);
    }
    println!("open+drop: {:?} per exec", t.elapsed() / n);
    let t = std::time::Instant::now();
    let rt = new_runtime(2);
    for _ in 0..n {
        let s = Scratch::new("smoke");
        rt.block_on(async {
            let p0 = tpl0.instantiate(&s.path().join("n0"));
            let n0 = Node::open(&p0, NodeOpts::default()).await;
            drop(n0);
        });
    }
    println!("open+drop shared rt: {:?} per exec", t.elapsed() / n);
}

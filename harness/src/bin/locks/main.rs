//! E12 `locks` (C20), part A: stateless DFS over all harness-visible schedules of the real
//! `SplitPool`: requester futures (`write_priority/normal/low`) are polled by hand with flag
//! wakers inside a current-thread runtime with paused time; actions are {poll a woken requester,
//! cancel a waiting requester, release a holder}; after every action the spawned dispatcher is
//! run to quiescence. Every schedule runs to completion.

use klukai_types::agent::{PoolError, SplitPool, WriteConn, migrate};
use klukai_types::sqlite::CrConn;
use serde_json::{Value, json};
use std::future::Future;
use std::pin::Pin;
use std::sync::Arc;
use std::sync::atomic::{AtomicBool, Ordering};
use std::task::{Context, Poll, Wake, Waker};
use std::time::{Duration, Instant};
use vh::vcore::*;
use vh::vnode::Scratch;

mod part_b;

#[derive(Clone, Copy, Debug, PartialEq, Eq, PartialOrd, Ord, Hash, serde::Serialize, serde::Deserialize)]
enum Prio {
    Low = 0,
    Normal = 1,
    Priority = 2,
}

struct Flag(AtomicBool);
impl Wake for Flag {
    fn wake(self: Arc<Self>) {
        self.0.store(true, Ordering::SeqCst);
    }
}

type Fut = Pin<Box<dyn Future<Output = Result<WriteConn, PoolError>>>>;

enum St {
    /// future exists; polled at least once iff `queued`
    Waiting { fut: Fut, queued: bool },
    Holding(WriteConn),
    Done,
    Cancelled,
}

#[derive(Clone, Debug, PartialEq, Eq, serde::Serialize, serde::Deserialize)]
enum Act {
    Poll(usize),
    Cancel(usize),
    Release(usize),
}

#[derive(Clone, Debug, serde::Serialize, serde::Deserialize)]
struct Program {
    prios: Vec<Prio>,
    max_cancels: usize,
    /// how many actions may be taken without letting the dispatcher run afterwards
    #[serde(default)]
    max_defer: usize,
}

struct RunOut {
    /// number of enabled actions at each step
    widths: Vec<usize>,
    acts: Vec<Act>,
    grants: Vec<usize>,
    violations: Vec<(String, Value)>,
}

async fn settle() {
    // let the dispatcher task (and anything it wakes) run; turn the time driver for its interval
    for _ in 0..3 {
        tokio::task::yield_now().await;
        tokio::time::advance(Duration::from_millis(1)).await;
        tokio::task::yield_now().await;
    }
}

fn run_schedule(db: &std::path::Path, prog: &Program, prefix: &[usize]) -> RunOut {
    let rt = tokio::runtime::Builder::new_current_thread().enable_all().start_paused(true).build().unwrap();
    let prog = prog.clone();
    let prefix = prefix.to_vec();
    let db = db.to_path_buf();
    rt.block_on(async move {
        let sema = Arc::new(tokio::sync::Semaphore::new(1));
        let pool = SplitPool::create(&db, sema).await.unwrap();
        settle().await;
        let n = prog.prios.len();
        let flags: Vec<Arc<Flag>> = (0..n).map(|_| Arc::new(Flag(AtomicBool::new(true)))).collect();
        let mut sts: Vec<St> = (0..n)
            .map(|i| {
                let p = pool.clone();
                let fut: Fut = match prog.prios[i] {
                    Prio::Priority => Box::pin(async move { p.write_priority().await }),
                    Prio::Normal => Box::pin(async move { p.write_normal().await }),
                    Prio::Low => Box::pin(async move { p.write_low().await }),
                };
                St::Waiting { fut, queued: false }
            })
            .collect();
        let mut out = RunOut { widths: vec![], acts: vec![], grants: vec![], violations: vec![] };
        let mut cancels = 0;
        let mut defers = 0;
        // set at a release: the priorities queued at that moment; checked at the next grant
        let mut expect_next: Option<Vec<(usize, Prio)>> = None;
        let mut step = 0;
        let mut settled_idle = false;
        loop {
            // enabled actions, canonical order
            let mut enabled: Vec<Act> = vec![];
            for i in 0..n {
                match &sts[i] {
                    St::Waiting { .. } => {
                        if flags[i].0.load(Ordering::SeqCst) {
                            enabled.push(Act::Poll(i));
                        }
                    }
                    St::Holding(_) => enabled.push(Act::Release(i)),
                    _ => {}
                }
            }
            for i in 0..n {
                if let St::Waiting { .. } = &sts[i] {
                    if cancels < prog.max_cancels {
                        enabled.push(Act::Cancel(i));
                    }
                }
            }
            let waiting = sts.iter().filter(|s| matches!(s, St::Waiting { .. })).count();
            let holding = sts.iter().filter(|s| matches!(s, St::Holding(_))).count();
            if holding > 1 {
                out.violations.push(("C20:two-write-connections-handed-out".into(), json!({"step": step, "acts": out.acts})));
            }
            let progress: Vec<&Act> = enabled.iter().filter(|a| !matches!(a, Act::Cancel(_))).collect();
            if waiting == 0 && holding == 0 {
                break;
            }
            if progress.is_empty() && !settled_idle {
                // a deferred action may have left the dispatcher behind: let it run once
                settle().await;
                settled_idle = true;
                continue;
            }
            if progress.is_empty() {
                // nobody woken, nobody holding, somebody waiting
                out.violations.push((
                    "C20:pool-deadlock-waiters-never-woken".into(),
                    json!({"step": step, "acts": out.acts, "waiting": waiting}),
                ));
                break;
            }
            // every action exists in two flavours: followed by a dispatcher run (default), or not
            let base = enabled.len();
            let width = if defers < prog.max_defer { 2 * base } else { base };
            let choice = if step < prefix.len() { prefix[step] } else { 0 };
            if choice >= width {
                machinery_error(&format!("schedule prefix diverged at step {step}: choice {choice} of {width}"));
            }
            out.widths.push(width);
            let deferred = choice >= base;
            if deferred {
                defers += 1;
            }
            let act = enabled[choice % base].clone();
            out.acts.push(act.clone());
            settled_idle = false;
            match act {
                Act::Poll(i) => {
                    flags[i].0.store(false, Ordering::SeqCst);
                    let waker = Waker::from(flags[i].clone());
                    let mut cx = Context::from_waker(&waker);
                    let st = std::mem::replace(&mut sts[i], St::Done);
                    if let St::Waiting { mut fut, .. } = st {
                        match fut.as_mut().poll(&mut cx) {
                            Poll::Pending => sts[i] = St::Waiting { fut, queued: true },
                            Poll::Ready(Ok(conn)) => {
                                out.grants.push(i);
                                if let Some(q) = expect_next.take() {
                                    let best = q.iter().map(|x| x.1).max();
                                    if let Some(best) = best {
                                        if prog.prios[i] < best && q.iter().any(|x| x.0 != i) {
                                            out.violations.push((
                                                "C20:lower-priority-request-served-before-a-queued-higher-one".into(),
                                                json!({"granted": i, "granted_prio": format!("{:?}", prog.prios[i]), "queued_at_release": format!("{q:?}"), "acts": out.acts}),
                                            ));
                                        }
                                    }
                                }
                                sts[i] = St::Holding(conn);
                            }
                            Poll::Ready(Err(e)) => {
                                out.violations.push(("C20:write-request-failed".into(), json!({"requester": i, "err": e.to_string(), "acts": out.acts})));
                                sts[i] = St::Done;
                            }
                        }
                    }
                }
                Act::Cancel(i) => {
                    cancels += 1;
                    sts[i] = St::Cancelled;
                    // a cancelled request no longer counts as queued for the pending expectation
                    if let Some(q) = expect_next.as_mut() {
                        q.retain(|x| x.0 != i);
                    }
                }
                Act::Release(i) => {
                    // who is queued right now (their oneshot sits in a dispatcher queue)
                    let q: Vec<(usize, Prio)> = sts
                        .iter()
                        .enumerate()
                        .filter_map(|(j, s)| match s {
                            St::Waiting { queued: true, .. } => Some((j, prog.prios[j])),
                            _ => None,
                        })
                        .collect();
                    sts[i] = St::Done;
                    expect_next = if q.is_empty() { None } else { Some(q) };
                }
            }
            if !deferred {
                settle().await;
            }
            step += 1;
            if step > 200 {
                out.violations.push(("C20:schedule-does-not-terminate".into(), json!({"acts": out.acts})));
                break;
            }
        }
        drop(sts);
        drop(pool);
        out
    })
}

fn explore(rep: &Report, db: &std::path::Path, prog: &Program, deadline: Instant, counters: &mut (u64, u64, bool)) {
    // iterative stateless DFS
    let mut stack: Vec<Vec<usize>> = vec![vec![]];
    while let Some(prefix) = stack.pop() {
        if Instant::now() > deadline {
            counters.2 = true;
            return;
        }
        let out = run_schedule(db, prog, &prefix);
        counters.0 += 1;
        counters.1 += out.acts.len() as u64;
        if !out.violations.is_empty() {
            // replay rule: the same schedule must show the same violation again. The subject may be
            // internally randomised (e.g. an unbiased select): then any re-observation in a few
            // replays confirms it; none at all is a machinery error.
            let k1: Vec<String> = out.violations.iter().map(|v| v.0.clone()).collect();
            let mut confirmed = false;
            for _ in 0..6 {
                let again = run_schedule(db, prog, &prefix);
                let k2: Vec<String> = again.violations.iter().map(|v| v.0.clone()).collect();
                if k1 == k2 {
                    confirmed = true;
                    break;
                }
            }
            if !confirmed {
                machinery_error(&format!("violation not reproducible on replay: schedule {prefix:?} for {prog:?}: {k1:?}"));
            }
        }
        for (k, d) in &out.violations {
            rep.violation(k, json!({"program": prog, "schedule": out.acts, "prefix": prefix, "d": d}));
        }
        rep.outcome(digest(&format!("{:?}", out.grants)));
        let cancelled = out.acts.iter().any(|a| matches!(a, Act::Cancel(_)));
        if out.grants.len() >= 2 || cancelled {
            rep.nontrivial(digest(&format!("{:?}{:?}", prog.prios, out.acts)));
        }
        if counters.0 % 997 == 5 {
            rep.sample(json!({"program": format!("{:?}", prog.prios), "schedule": format!("{:?}", out.acts), "grant_order": out.grants}));
        }
        for pos in prefix.len()..out.widths.len() {
            for alt in 1..out.widths[pos] {
                let mut p: Vec<usize> = out.acts[..pos]
                    .iter()
                    .enumerate()
                    .map(|(k, _)| if k < prefix.len() { prefix[k] } else { 0 })
                    .collect();
                p.push(alt);
                stack.push(p);
            }
        }
    }
}

fn main() {
    let cli = parse_cli();
    let rep = Report::new("C20", cli.tier, cli.seed);
    let scratch = Scratch::new("locks");
    let db = scratch.path().join("pool.db");
    {
        let mut conn = CrConn::init(rusqlite::Connection::open(&db).unwrap()).unwrap();
        klukai_types::sqlite::setup_conn(&conn).unwrap();
        migrate(Arc::new(uhlc::HLC::default()), &mut conn).unwrap();
    }
    if let Some(p) = &cli.replay {
        let r = load_replay(p);
        if r["part"] == "B" {
            part_b::install_handler();
            let w = part_b::build_world();
            let paths: Vec<part_b::Path> = serde_json::from_value(r["paths"].clone()).unwrap();
            let prefix: Vec<usize> = serde_json::from_value(r["prefix"].clone()).unwrap();
            let out = part_b::run_schedule(&w, &paths, &prefix);
            println!("schedule: {:?}", out.acts);
            for (k, d) in &out.violations {
                println!("reproduced {k}: {d}");
            }
            std::process::exit(if out.violations.is_empty() { 0 } else { 1 });
        }
        let prog: Program = serde_json::from_value(r["program"].clone()).unwrap();
        let prefix: Vec<usize> = serde_json::from_value(r["prefix"].clone()).unwrap();
        let out = run_schedule(&db, &prog, &prefix);
        println!("schedule: {:?}\ngrants: {:?}", out.acts, out.grants);
        for (k, d) in &out.violations {
            println!("reproduced {k}: {d}");
        }
        std::process::exit(if out.violations.is_empty() { 0 } else { 1 });
    }
    use Prio::*;
    let programs: Vec<Program> = match cli.tier {
        Tier::Quick => vec![
            Program { prios: vec![Low, Priority], max_cancels: 1, max_defer: 1 },
            Program { prios: vec![Normal, Normal], max_cancels: 1, max_defer: 1 },
            Program { prios: vec![Low, Normal, Priority], max_cancels: 0, max_defer: 1 },
            Program { prios: vec![Priority, Low, Priority], max_cancels: 0, max_defer: 1 },
        ],
        Tier::Thorough => vec![
            Program { prios: vec![Low, Priority], max_cancels: 2, max_defer: 2 },
            Program { prios: vec![Normal, Normal], max_cancels: 2, max_defer: 2 },
            Program { prios: vec![Low, Normal, Priority], max_cancels: 1, max_defer: 1 },
            Program { prios: vec![Priority, Low, Priority], max_cancels: 1, max_defer: 1 },
            Program { prios: vec![Normal, Low, Low], max_cancels: 1, max_defer: 1 },
            Program { prios: vec![Low, Normal, Priority, Normal], max_cancels: 0, max_defer: 1 },
        ],
    };
    let deadline = Instant::now() + Duration::from_secs(cli.tier.pick(150, 600));
    let mut per_prog = vec![];
    let mut total = (0u64, 0u64, false);
    for prog in &programs {
        let mut c = (0u64, 0u64, false);
        explore(&rep, &db, prog, deadline, &mut c);
        per_prog.push(json!({"priorities": format!("{:?}", prog.prios), "max_cancels": prog.max_cancels, "schedules": c.0, "actions": c.1, "complete": !c.2}));
        total.0 += c.0;
        total.1 += c.1;
        total.2 |= c.2;
    }
    // part A's verdict must not be lost to anything that happens in part B: report it right away
    if rep.violation_count() > 0 {
        rep.set("states", total.0);
        rep.set("transitions", total.1);
        rep.set("pool_programs", json!(per_prog));
        rep.set("part_b", json!({"skipped": "part A reported a violation"}));
        rep.set("exhaustive", false);
        rep.finish();
    }
    let b = part_b::part_b(&rep, cli.tier, Instant::now() + Duration::from_secs(cli.tier.pick(240, 1200)));
    let bs = b["schedules"].as_u64().unwrap_or(0);
    let bcap = b["cap"].as_str().map(|s| s.to_string());
    rep.set("states", total.0 + bs);
    rep.set("transitions", total.1 + b["actions"].as_u64().unwrap_or(0));
    rep.set("evaluations", total.0 + bs);
    rep.set("traces_validated_against_impl", total.0 + bs);
    rep.set("pool_programs", json!(per_prog));
    rep.set("part_b", b);
    rep.set("exhaustive", !total.2 && bcap.is_none());
    if total.2 {
        rep.set("cap_hit", "wall-clock cap: the last program's schedule tree was not finished");
    } else if let Some(c) = bcap {
        rep.set("cap_hit", format!("part B: {c}"));
    }
    rep.assume("scheduling points are the harness's actions (poll a woken requester, cancel, release); after each action the dispatcher task is run to quiescence, so interleavings inside tokio's channel/semaphore primitives are not explored");
    rep.assume("part B: nine agent activities (client transaction, remote apply of one and of two actors, buffering a chunk, applying a buffered version, empty version, generate_sync, serving a sync request, schema change) run as real tasks on a real node and are stopped at every bookkeeping-lock acquisition and every write-connection request; a released task runs to its next acquisition, its end, or until it waits for a held resource; deadlock = every unfinished task waits");
    rep.assume("part B: the admin-socket paths (reconcile-gaps, set-cluster-id) live in the binary crate and are not driven; interleavings finer than acquisition points are not explored");
    rep.require_nontrivial(20, "a schedule is non-trivial when at least two requests were granted in it or a request was cancelled; distinct by (program, action sequence)");
    rep.finish();
}

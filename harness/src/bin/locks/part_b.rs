//! C20 part B: the agent's writers and readers running concurrently on a real node, stopped at
//! every bookkeeping-lock acquisition and every write-pool request (hook points in LockRegistry
//! and SplitPool::write_inner). The controller releases one parked task at a time; a released
//! task runs until its next acquisition, its end, or until it has to wait for a resource another
//! task holds. A state in which every unfinished task waits is a deadlock.
//!
//! The controller keeps a small model of the resources (tokio RwLock: FIFO, a waiting writer
//! blocks later readers; the write pool: one holder, priority queues) only to know *whom to wait
//! for* after each release. If that model disagreed with the real primitives the run would hang
//! or a "waiting" task would produce events; both are machinery errors, never verdicts.

use klukai_types::actor::ActorId;
use klukai_types::api::Statement;
use klukai_types::broadcast::ChangeV1;
use klukai_types::sync::SyncNeedV1;
use serde_json::{Value, json};
use std::collections::{BTreeMap, HashMap, VecDeque};
use std::sync::Mutex;
use std::sync::atomic::{AtomicBool, Ordering::SeqCst};
use std::time::{Duration, Instant};
use vh::vcore::*;
use vh::vnode::*;

const SCHEMA: &str = "CREATE TABLE t (id INTEGER PRIMARY KEY NOT NULL, a TEXT NOT NULL DEFAULT '', b TEXT NOT NULL DEFAULT '');";

#[derive(Clone, Copy, Debug, PartialEq, Eq, Hash, PartialOrd, Ord, serde::Serialize, serde::Deserialize)]
pub enum Path {
    /// client transaction (api_v1_transactions)
    Local,
    /// a complete remote version (process_multiple_changes)
    Apply,
    /// one batch with versions of two actors
    ApplyTwoActors,
    /// a chunk of a remote version (buffered)
    Partial,
    /// apply of a fully buffered version (process_fully_buffered_changes)
    Buffered,
    /// an empty-version changeset
    Empty,
    /// generate_sync
    GenSync,
    /// serving a sync request (process_sync / handle_need)
    Serve,
    /// schema change (api_v1_db_schema)
    Schema,
}

pub const PATHS: [Path; 9] = [Path::Local, Path::Apply, Path::ApplyTwoActors, Path::Partial, Path::Buffered, Path::Empty, Path::GenSync, Path::Serve, Path::Schema];

#[derive(Clone, Debug)]
enum Ev {
    Acquiring { id: u64, lock: String, w: bool, label: String },
    Locked { id: u64 },
    Released { id: u64 },
    PoolReq { q: String },
    PoolQueued,
    PoolGranted,
    PoolReleased,
}

static ACTIVE: AtomicBool = AtomicBool::new(false);
static TASKS: Mutex<Vec<(tokio::task::Id, usize)>> = Mutex::new(Vec::new());
static LOG: Mutex<Vec<(Option<usize>, Ev)>> = Mutex::new(Vec::new());
static RELEASE: [AtomicBool; 8] = [const { AtomicBool::new(false) }; 8];

pub fn install_handler() {
    klukai_types::verif::set_point_handler(Some(std::sync::Arc::new(|name: &str, detail: &str| {
        if !ACTIVE.load(SeqCst) {
            return;
        }
        let ev = match name {
            "lock.acquiring" => {
                let mut p = detail.splitn(4, '|');
                let id = p.next().and_then(|x| x.parse().ok()).unwrap_or(0);
                let lock = p.next().unwrap_or("").to_string();
                let w = p.next() == Some("W");
                let label = p.next().unwrap_or("").to_string();
                Ev::Acquiring { id, lock, w, label }
            }
            "lock.locked" => Ev::Locked { id: detail.parse().unwrap_or(0) },
            "lock.released" => Ev::Released { id: detail.parse().unwrap_or(0) },
            "pool.request" => Ev::PoolReq { q: detail.to_string() },
            "pool.queued" => Ev::PoolQueued,
            "pool.granted" => Ev::PoolGranted,
            "pool.released" => Ev::PoolReleased,
            _ => return,
        };
        let task = tokio::task::try_id().and_then(|id| TASKS.lock().unwrap().iter().find(|e| e.0 == id).map(|e| e.1));
        let gate = matches!(ev, Ev::Acquiring { .. } | Ev::PoolReq { .. }) && task.is_some();
        LOG.lock().unwrap().push((task, ev));
        if gate {
            let t = task.unwrap();
            let start = Instant::now();
            let wait = || {
                while !RELEASE[t].swap(false, SeqCst) {
                    std::thread::sleep(Duration::from_micros(100));
                    if !ACTIVE.load(SeqCst) || start.elapsed() > Duration::from_secs(60) {
                        break;
                    }
                }
            };
            if tokio::runtime::Handle::try_current().is_ok() {
                tokio::task::block_in_place(wait);
            } else {
                wait();
            }
        }
    })));
}

pub struct World {
    tpl: Template,
    a: ActorId,
    b: ActorId,
    /// versions of actor A: [v1 (2 cells), v2, v3 (2 cells), v4], and B: [v1]
    av: Vec<ChangeV1>,
    bv: Vec<ChangeV1>,
}

pub fn build_world() -> World {
    let tpl = Template::build(0, SCHEMA);
    let ta = Template::build(1, SCHEMA);
    let tb = Template::build(2, SCHEMA);
    let s = Scratch::new("lo_w");
    let mut av = vec![];
    let mut bv = vec![];
    let mut na = RtNode::open(&ta.instantiate(&s.path().join("a")), NodeOpts::default());
    for k in 1..=4 {
        let (st, _b, bc) = na.run(async |nd| nd.write(vec![Statement::Simple(format!("INSERT INTO t (id,a,b) VALUES ({},'a{k}','b{k}')", 100 + k))], None).await);
        assert_eq!(st, 200);
        av.push(bc[0].clone());
    }
    let a = na.node().actor_id();
    let mut nb = RtNode::open(&tb.instantiate(&s.path().join("b")), NodeOpts::default());
    let (st, _b, bc) = nb.run(async |nd| nd.write(vec![Statement::Simple("INSERT INTO t (id,a,b) VALUES (201,'x','y')".into())], None).await);
    assert_eq!(st, 200);
    bv.push(bc[0].clone());
    let b = nb.node().actor_id();
    World { tpl, a, b, av, bv }
}

fn chunk(c: &ChangeV1, lo: u64, hi: u64) -> ChangeV1 {
    use klukai_types::broadcast::Changeset;
    match &c.changeset {
        Changeset::Full { version, changes, last_seq, ts, .. } => ChangeV1 {
            actor_id: c.actor_id,
            changeset: Changeset::Full {
                version: *version,
                changes: changes.iter().filter(|ch| ch.seq.0 >= lo && ch.seq.0 <= hi).cloned().collect(),
                seqs: klukai_types::base::CrsqlSeq(lo)..=klukai_types::base::CrsqlSeq(hi),
                last_seq: *last_seq,
                ts: *ts,
            },
        },
        _ => unreachable!(),
    }
}

#[derive(Clone, Debug, PartialEq)]
enum St {
    /// parked at a gate, with its description
    Parked(String),
    Running,
    /// waiting for a resource held by somebody else
    Waiting(String),
    Done,
}

#[derive(Default, Debug)]
struct LockModel {
    holders: Vec<(u64, Option<usize>, bool)>,
    queue: VecDeque<(u64, Option<usize>, bool)>,
}

#[derive(Default, Debug)]
struct PoolModel {
    holder: Option<Option<usize>>,
    /// the requester the dispatcher has committed to (guard sent, connection not yet granted)
    queued: Vec<(Option<usize>, u8, u64)>,
}

pub struct RunOut {
    pub widths: Vec<usize>,
    pub acts: Vec<(usize, String)>,
    pub violations: Vec<(String, Value)>,
    pub programs: BTreeMap<usize, Vec<String>>,
    pub preemptions: usize,
    /// the recorded prefix asked for a choice that was not enabled here (a task registered its
    /// wait in another order than in the run that recorded the prefix): still a real execution
    pub diverged: bool,
}

fn prio(q: &str) -> u8 {
    match q {
        "priority" => 2,
        "normal" => 1,
        _ => 0,
    }
}

pub fn run_schedule(w: &World, paths: &[Path], prefix: &[usize]) -> RunOut {
    let s = Scratch::new("lo");
    let p = w.tpl.instantiate(&s.path().join("n"));
    ACTIVE.store(false, SeqCst);
    TASKS.lock().unwrap().clear();
    LOG.lock().unwrap().clear();
    for r in RELEASE.iter() {
        r.store(false, SeqCst);
    }
    let rt = tokio::runtime::Builder::new_multi_thread().worker_threads(4).enable_all().build().unwrap();
    let paths = paths.to_vec();
    let prefix = prefix.to_vec();
    let out = rt.block_on(async {
        let nd = Node::open(&p, NodeOpts::default()).await;
        // initial state: A.v1 fully buffered, not applied (for Buffered)
        nd.deliver(vec![chunk(&w.av[0], 1, 1)]).await.unwrap();
        nd.deliver(vec![chunk(&w.av[0], 0, 0)]).await.unwrap();
        let agent = nd.agent.clone();
        let bookie = nd.bookie.clone();
        let n = paths.len();
        let start = std::sync::Arc::new(tokio::sync::Semaphore::new(0));
        let mut handles = vec![];
        ACTIVE.store(true, SeqCst);
        for (i, path) in paths.iter().enumerate() {
            let agent = agent.clone();
            let bookie = bookie.clone();
            let start = start.clone();
            let (a, b) = (w.a, w.b);
            let av = w.av.clone();
            let bv = w.bv.clone();
            let path = *path;
            let h = tokio::spawn(async move {
                start.acquire().await.unwrap().forget();
                let now = Instant::now();
                let pmc = |batch: Vec<ChangeV1>| {
                    klukai_agent::agent::process_multiple_changes(
                        agent.clone(),
                        bookie.clone(),
                        batch.into_iter().map(|c| (c, klukai_types::broadcast::ChangeSource::Sync, now)).collect(),
                        Duration::from_secs(60),
                    )
                };
                let r: Result<(), String> = match path {
                    Path::Local => {
                        let (st, body) = klukai_agent::api::public::api_v1_transactions(
                            axum::Extension(agent.clone()),
                            axum::extract::Query(klukai_agent::api::public::TimeoutParams { timeout: None }),
                            axum::extract::Json(vec![Statement::Simple(format!("INSERT INTO t (id,a,b) VALUES ({},'l','l')", 10 + i))]),
                        )
                        .await;
                        if st.is_success() { Ok(()) } else { Err(format!("{:?}", body.0)) }
                    }
                    Path::Apply => pmc(vec![av[1].clone()]).await.map_err(|e| e.to_string()),
                    Path::ApplyTwoActors => pmc(vec![av[3].clone(), bv[0].clone()]).await.map_err(|e| e.to_string()),
                    Path::Partial => pmc(vec![chunk(&av[2], 0, 0)]).await.map_err(|e| e.to_string()),
                    Path::Buffered => klukai_agent::agent::util::process_fully_buffered_changes(&agent, &bookie, a, klukai_types::base::CrsqlDbVersion(1), Duration::from_secs(60))
                        .await
                        .map(|_| ())
                        .map_err(|e| e.to_string()),
                    Path::Empty => pmc(vec![empty(b, 2..=3)]).await.map_err(|e| e.to_string()),
                    Path::GenSync => {
                        let _ = klukai_types::sync::generate_sync(&bookie, agent.actor_id()).await;
                        Ok(())
                    }
                    Path::Serve => {
                        let (tx_need, rx_need) = tokio::sync::mpsc::channel(4);
                        let (tx, mut rx) = tokio::sync::mpsc::channel(1024);
                        tx_need.send(vec![(a, vec![SyncNeedV1::Full { versions: klukai_types::base::CrsqlDbVersion(1)..=klukai_types::base::CrsqlDbVersion(2) }])]).await.unwrap();
                        drop(tx_need);
                        let r = klukai_agent::verif::process_sync(agent.pool().clone(), bookie.clone(), tx, rx_need).await.map(|_| ()).map_err(|e| e.to_string());
                        while rx.try_recv().is_ok() {}
                        r
                    }
                    Path::Schema => {
                        let (st, body) = klukai_agent::api::public::api_v1_db_schema(
                            axum::Extension(agent.clone()),
                            axum::extract::Json(vec![format!("CREATE TABLE extra{i} (id INTEGER PRIMARY KEY NOT NULL, v TEXT NOT NULL DEFAULT '');")]),
                        )
                        .await;
                        if st.is_success() { Ok(()) } else { Err(format!("{:?}", body.0)) }
                    }
                };
                r
            });
            TASKS.lock().unwrap().push((h.id(), i));
            handles.push(h);
        }
        start.add_permits(n);

        // ---------------- controller
        let mut st: Vec<St> = vec![St::Running; n];
        let mut pending: Vec<Option<Ev>> = vec![None; n]; // the gate each task is parked at
        let mut locks: HashMap<String, LockModel> = HashMap::new();
        let mut lock_of: HashMap<u64, String> = HashMap::new();
        let mut pool = PoolModel::default();
        let mut cursor = 0usize;
        let mut seqno = 0u64;
        let mut out = RunOut { widths: vec![], acts: vec![], violations: vec![], programs: BTreeMap::new(), preemptions: 0, diverged: false };
        let mut pending_q: Vec<Option<String>> = vec![None; n]; // priority of a released, not yet queued pool request
        let mut last: Option<usize> = None;
        let mut results: Vec<Option<Result<(), String>>> = (0..n).map(|_| None).collect();

        // can (w) be granted on lock model now?
        fn grantable(l: &LockModel, w: bool) -> bool {
            if w { l.holders.is_empty() && l.queue.is_empty() } else { !l.holders.iter().any(|h| h.2) && l.queue.is_empty() }
        }
        let t0 = Instant::now();
        'outer: loop {
            // ---- settle: consume events until no harness task is Running
            let settle_start = Instant::now();
            loop {
                // finished tasks
                for i in 0..n {
                    if st[i] != St::Done && handles[i].is_finished() {
                        // consume its remaining events first
                        let pending_events = LOG.lock().unwrap().len() > cursor;
                        if !pending_events {
                            st[i] = St::Done;
                        }
                    }
                }
                let evs: Vec<(Option<usize>, Ev)> = {
                    let g = LOG.lock().unwrap();
                    let v = g[cursor..].to_vec();
                    cursor = g.len();
                    v
                };
                for (t, ev) in evs {
                    if let Some(t) = t {
                        if matches!(st[t], St::Waiting(_)) && !matches!(ev, Ev::Locked { .. } | Ev::PoolGranted | Ev::PoolQueued) {
                            machinery_error(&format!("C20-B: task {t} produced {ev:?} while the controller believed it was waiting"));
                        }
                    }
                    match ev.clone() {
                        Ev::Acquiring { id, lock, w, label } => {
                            lock_of.insert(id, lock.clone());
                            match t {
                                Some(t) => {
                                    out.programs.entry(t).or_default().push(format!("{}({label})", if w { "write" } else { "read" }));
                                    st[t] = St::Parked(format!("{} {label}", if w { "write" } else { "read" }));
                                    pending[t] = Some(ev);
                                }
                                None => {
                                    // background task: not gated, it goes straight for the lock
                                    let l = locks.entry(lock).or_default();
                                    if grantable(l, w) {
                                        l.holders.push((id, None, w));
                                    } else {
                                        l.queue.push_back((id, None, w));
                                    }
                                }
                            }
                        }
                        Ev::Locked { id } => {
                            if let Some(lock) = lock_of.get(&id) {
                                let l = locks.entry(lock.clone()).or_default();
                                if let Some(pos) = l.queue.iter().position(|q| q.0 == id) {
                                    let e = l.queue.remove(pos).unwrap();
                                    l.holders.push(e);
                                } else if !l.holders.iter().any(|h| h.0 == id) {
                                    l.holders.push((id, t, true));
                                }
                            }
                            if let Some(t) = t {
                                st[t] = St::Running;
                            }
                        }
                        Ev::Released { id } => {
                            if let Some(lock) = lock_of.get(&id).cloned() {
                                let l = locks.entry(lock).or_default();
                                // who gets the lock next is observed (its `locked` event), not predicted
                                l.holders.retain(|h| h.0 != id);
                                l.queue.retain(|q| q.0 != id);
                            }
                        }
                        Ev::PoolReq { q } => match t {
                            Some(t) => {
                                out.programs.entry(t).or_default().push(format!("write-conn({q})"));
                                st[t] = St::Parked(format!("write-conn {q}"));
                                pending[t] = Some(ev);
                            }
                            None => {
                                seqno += 1;
                                pool.queued.push((None, prio(&q), seqno));
                            }
                        },
                        Ev::PoolQueued => {
                            if let Some(t) = t {
                                if let Some(q) = pending_q[t].take() {
                                    seqno += 1;
                                    pool.queued.push((Some(t), prio(&q), seqno));
                                    // whether it is served now is observed (`granted`), not predicted
                                    st[t] = St::Waiting(format!("write-conn {q}"));
                                }
                            }
                        }
                        Ev::PoolGranted => {
                            pool.queued.retain(|e| e.0 != t);
                            pool.holder = Some(t);
                            if let Some(t) = t {
                                st[t] = St::Running;
                            }
                        }
                        Ev::PoolReleased => {
                            pool.holder = None;
                        }
                    }
                }
                for i in 0..n {
                    if st[i] == St::Running && handles[i].is_finished() && LOG.lock().unwrap().len() == cursor {
                        st[i] = St::Done;
                    }
                }
                // somebody who waits can go on right now: the connection is free and requests are
                // queued, or a lock has waiters and nothing that conflicts with all of them is held
                let progress_possible = (pool.holder.is_none() && !pool.queued.is_empty())
                    || locks.values().any(|l| {
                        !l.queue.is_empty()
                            && (l.holders.is_empty() || (!l.holders.iter().any(|h| h.2) && !l.queue.iter().any(|q| q.2) && l.queue.iter().any(|q| !q.2)))
                    });
                if !st.iter().any(|x| *x == St::Running) && !progress_possible && LOG.lock().unwrap().len() == cursor {
                    // a task released towards a held lock registers its wait without an event: give
                    // the log a moment to stay quiet before believing the state
                    tokio::time::sleep(Duration::from_millis(2)).await;
                    if LOG.lock().unwrap().len() == cursor {
                        break;
                    }
                }
                // a released write-connection request that has not even been queued after a second is
                // waiting for something before the queue (on this tree nothing is; a change that puts
                // a wait there must not turn into a machinery error)
                if settle_start.elapsed() > Duration::from_secs(1) {
                    for i in 0..n {
                        if st[i] == St::Running && pending_q[i].is_some() {
                            st[i] = St::Waiting("write-conn (request not queued yet)".into());
                        }
                    }
                }
                if settle_start.elapsed() > Duration::from_secs(20) {
                    machinery_error(&format!("C20-B: tasks did not settle: {st:?} paths {paths:?} acts {:?} log {:?}", out.acts, LOG.lock().unwrap()));
                }
                tokio::time::sleep(Duration::from_micros(200)).await;
            }
            // ---- choose
            let mut enabled: Vec<usize> = (0..n).filter(|i| matches!(st[*i], St::Parked(_))).collect();
            if let Some(l) = last {
                if let Some(pos) = enabled.iter().position(|x| *x == l) {
                    enabled.remove(pos);
                    enabled.insert(0, l);
                }
            }
            if enabled.is_empty() {
                if st.iter().all(|x| *x == St::Done) {
                    break 'outer;
                }
                // everybody left is waiting: background tasks may still release something
                let waited = Instant::now();
                while waited.elapsed() < Duration::from_secs(3) {
                    if LOG.lock().unwrap().len() > cursor {
                        continue 'outer;
                    }
                    tokio::time::sleep(Duration::from_millis(1)).await;
                }
                let who: Vec<Value> = (0..n).filter(|i| st[*i] != St::Done).map(|i| json!({"task": i, "path": format!("{:?}", paths[i]), "state": format!("{:?}", st[i])})).collect();
                out.violations.push(("C20:deadlock".into(), json!({"waiting": who, "schedule": out.acts, "lock_state": format!("{locks:?}"), "pool": format!("{pool:?}")})));
                break 'outer;
            }
            let k = out.widths.len();
            let choice = if k < prefix.len() { prefix[k] } else { 0 };
            let choice = if choice >= enabled.len() {
                out.diverged = true;
                choice % enabled.len()
            } else {
                choice
            };
            out.widths.push(enabled.len());
            let t = enabled[choice];
            if let Some(l) = last {
                if l != t && matches!(st[l], St::Parked(_)) {
                    out.preemptions += 1;
                }
            }
            last = Some(t);
            let desc = match &st[t] {
                St::Parked(d) => d.clone(),
                _ => String::new(),
            };
            out.acts.push((t, desc.clone()));
            // release it: does it get the resource at once?
            match pending[t].take() {
                Some(Ev::Acquiring { id, lock, w, label }) => {
                    let l = locks.entry(lock).or_default();
                    if grantable(l, w) {
                        l.holders.push((id, Some(t), w));
                        st[t] = St::Running;
                    } else {
                        l.queue.push_back((id, Some(t), w));
                        st[t] = St::Waiting(format!("{} {label}", if w { "write" } else { "read" }));
                    }
                }
                Some(Ev::PoolReq { q }) => {
                    // it runs until its request sits in the dispatcher's queue (`queued` event)
                    pending_q[t] = Some(q);
                    st[t] = St::Running;
                }
                _ => machinery_error("C20-B: parked task without a gate"),
            }
            RELEASE[t].store(true, SeqCst);
            if t0.elapsed() > Duration::from_secs(120) {
                machinery_error("C20-B: schedule ran for more than two minutes");
            }
        }
        ACTIVE.store(false, SeqCst);
        for r in RELEASE.iter() {
            r.store(true, SeqCst);
        }
        if out.violations.is_empty() {
            for (i, h) in handles.into_iter().enumerate() {
                match tokio::time::timeout(Duration::from_secs(20), h).await {
                    Ok(Ok(r)) => results[i] = Some(r),
                    Ok(Err(e)) => results[i] = Some(Err(format!("task panicked: {e}"))),
                    Err(_) => results[i] = Some(Err("did not finish".into())),
                }
            }
            for (i, r) in results.iter().enumerate() {
                if let Some(Err(e)) = r {
                    out.violations.push(("C20:task-failed-under-concurrency".into(), json!({"task": i, "path": format!("{:?}", paths[i]), "err": e, "schedule": out.acts})));
                }
            }
        }
        drop(nd);
        out
    });
    rt.shutdown_timeout(Duration::from_millis(500));
    out
}

/// Explore every schedule of `paths` with at most `bound` preemptions. Returns (schedules, actions, capped).
pub static DIVERGED: std::sync::atomic::AtomicU64 = std::sync::atomic::AtomicU64::new(0);

pub fn explore(rep: &Report, w: &World, paths: &[Path], bound: usize, deadline: Instant, programs: &mut BTreeMap<String, Vec<String>>) -> (u64, u64, bool) {
    let mut stack: Vec<Vec<usize>> = vec![vec![]];
    let mut n = 0u64;
    let mut acts = 0u64;
    while let Some(prefix) = stack.pop() {
        if Instant::now() > deadline {
            return (n, acts, true);
        }
        let out = run_schedule(w, paths, &prefix);
        n += 1;
        acts += out.acts.len() as u64;
        if out.diverged {
            DIVERGED.fetch_add(1, SeqCst);
        }
        if !out.violations.is_empty() {
            let again = run_schedule(w, paths, &prefix);
            let k1: Vec<&String> = out.violations.iter().map(|v| &v.0).collect();
            let k2: Vec<&String> = again.violations.iter().map(|v| &v.0).collect();
            if k1 != k2 {
                machinery_error(&format!("C20-B: non-deterministic schedule {paths:?} {prefix:?}: {k1:?} vs {k2:?}"));
            }
        }
        for (k, d) in &out.violations {
            rep.violation(k, json!({"part": "B", "paths": paths, "prefix": prefix, "d": d}));
        }
        rep.outcome(digest(&format!("B{:?}", out.acts.iter().map(|a| a.0).collect::<Vec<_>>())));
        if out.preemptions > 0 {
            rep.nontrivial(digest(&format!("B{paths:?}{:?}", out.acts)));
        }
        for (t, prog) in &out.programs {
            programs.entry(format!("{:?}", paths[*t])).or_insert_with(|| prog.clone());
        }
        if n % 97 == 13 {
            rep.sample(json!({"part": "B", "paths": paths, "schedule": out.acts}));
        }
        // children: deviate at positions after the prefix, within the preemption bound
        // (choice 0 = keep running the task that ran last, if it is parked)
        for pos in prefix.len()..out.widths.len() {
            for alt in 1..out.widths[pos] {
                let mut p2: Vec<usize> = (0..pos).map(|k| if k < prefix.len() { prefix[k] } else { 0 }).collect();
                p2.push(alt);
                if p2.iter().filter(|c| **c != 0).count() <= bound {
                    stack.push(p2);
                }
            }
        }
    }
    (n, acts, false)
}

pub fn part_b(rep: &Report, tier: Tier, deadline: Instant) -> Value {
    install_handler();
    let w = build_world();
    let mut sets: Vec<Vec<Path>> = vec![];
    for i in 0..PATHS.len() {
        for j in i + 1..PATHS.len() {
            sets.push(vec![PATHS[i], PATHS[j]]);
        }
    }
    // the same path twice where two instances can really collide
    sets.push(vec![Path::Local, Path::Local]);
    sets.push(vec![Path::GenSync, Path::GenSync]);
    if tier == Tier::Thorough {
        for i in 0..PATHS.len() {
            for j in i + 1..PATHS.len() {
                for k in j + 1..PATHS.len() {
                    sets.push(vec![PATHS[i], PATHS[j], PATHS[k]]);
                }
            }
        }
    }
    let bound = tier.pick(1, 2) as usize;
    let mut programs = BTreeMap::new();
    let mut total = (0u64, 0u64);
    let mut done = 0usize;
    let mut cap = None;
    for set in &sets {
        let (n, a, capped) = explore(rep, &w, set, bound, deadline, &mut programs);
        total.0 += n;
        total.1 += a;
        if capped {
            cap = Some(format!("wall-clock cap after {done} of {} task sets", sets.len()));
            break;
        }
        done += 1;
    }
    json!({"schedules": total.0, "actions": total.1, "schedules_whose_recorded_prefix_was_not_reproducible": DIVERGED.load(SeqCst), "task_sets_fully_explored": done, "task_sets": sets.len(), "preemption_bound": bound, "cap": cap,
        "lock_programs_observed": programs,
        "paths": PATHS.iter().map(|p| format!("{p:?}")).collect::<Vec<_>>()})
}

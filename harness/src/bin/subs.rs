//! E7 `subs`: subscriptions and update feeds on a real node.
//!  C11: query x history enumeration; after every step the materialised rows of every
//!       subscription are compared with the query re-evaluated on the node database, and the
//!       event stream is replayed.
//!  C14: update notifications (see `c14`).

use klukai_types::api::sqlite::ChangeType;
use klukai_types::api::{QueryEvent, SqliteValue, Statement, TableName};
use klukai_types::pubsub::{MatchCandidates, MatcherHandle, pack_columns};
use klukai_types::updates::Handle;
use serde_json::{Value, json};
use std::collections::BTreeMap;
use std::time::{Duration, Instant};
use vh::vcore::*;
use vh::vnode::*;

const SCHEMA: &str = "
CREATE TABLE p (id INTEGER PRIMARY KEY NOT NULL, v TEXT NOT NULL DEFAULT '', g TEXT);
CREATE TABLE c (id INTEGER PRIMARY KEY NOT NULL, p_id INTEGER, w TEXT NOT NULL DEFAULT '');
CREATE TABLE k (k1 INTEGER NOT NULL, k2 TEXT NOT NULL, x TEXT NOT NULL DEFAULT '', PRIMARY KEY (k1, k2));
";

struct Q {
    name: &'static str,
    sql: &'static str,
    /// same query with the primary keys of every table added (identity of result rows)
    keyed: &'static str,
    /// a table of the query, used for the barrier batch
    first_table: &'static str,
    /// tables on the nullable side of a LEFT JOIN
    nullable: &'static [&'static str],
}

const QUERIES: &[Q] = &[
    Q { name: "projection", sql: "SELECT id, v FROM p", keyed: "SELECT id, id, v FROM p", first_table: "p", nullable: &[] },
    Q { name: "expression", sql: "SELECT id, v || '!' AS e FROM p", keyed: "SELECT id, id, v || '!' FROM p", first_table: "p", nullable: &[] },
    Q { name: "where_value", sql: "SELECT id, v FROM p WHERE v = 'a'", keyed: "SELECT id, id, v FROM p WHERE v = 'a'", first_table: "p", nullable: &[] },
    Q { name: "where_nullable", sql: "SELECT id, g FROM p WHERE g IS NULL", keyed: "SELECT id, id, g FROM p WHERE g IS NULL", first_table: "p", nullable: &[] },
    Q { name: "inner_join", sql: "SELECT p.id, p.v, c.id, c.w FROM p JOIN c ON c.p_id = p.id", keyed: "SELECT p.id, c.id, p.id, p.v, c.id, c.w FROM p JOIN c ON c.p_id = p.id", first_table: "p", nullable: &[] },
    Q { name: "left_join", sql: "SELECT p.id, p.v, c.id, c.w FROM p LEFT JOIN c ON c.p_id = p.id", keyed: "SELECT p.id, c.id, p.id, p.v, c.id, c.w FROM p LEFT JOIN c ON c.p_id = p.id", first_table: "p", nullable: &["c"] },
    Q { name: "left_join_where_null", sql: "SELECT p.id, c.w FROM p LEFT JOIN c ON c.p_id = p.id WHERE c.w IS NULL OR c.w = 'x'", keyed: "SELECT p.id, c.id, p.id, c.w FROM p LEFT JOIN c ON c.p_id = p.id WHERE c.w IS NULL OR c.w = 'x'", first_table: "p", nullable: &["c"] },
    Q { name: "alias", sql: "SELECT a.id, a.v FROM p AS a WHERE a.v != ''", keyed: "SELECT a.id, a.id, a.v FROM p AS a WHERE a.v != ''", first_table: "p", nullable: &[] },
    Q { name: "composite_key", sql: "SELECT k1, k2, x FROM k", keyed: "SELECT k1, k2, k1, k2, x FROM k", first_table: "k", nullable: &[] },
    Q { name: "join_composite", sql: "SELECT p.id, k.k2, k.x FROM p JOIN k ON k.k1 = p.id", keyed: "SELECT p.id, k.k1, k.k2, p.id, k.k2, k.x FROM p JOIN k ON k.k1 = p.id", first_table: "p", nullable: &[] },
    Q { name: "select_star", sql: "SELECT * FROM p", keyed: "SELECT id, * FROM p", first_table: "p", nullable: &[] },
    Q { name: "two_left_joins", sql: "SELECT p.id, c.id, k.x FROM p LEFT JOIN c ON c.p_id = p.id LEFT JOIN k ON k.k1 = p.id", keyed: "SELECT p.id, c.id, k.k1, k.k2, p.id, c.id, k.x FROM p LEFT JOIN c ON c.p_id = p.id LEFT JOIN k ON k.k1 = p.id", first_table: "p", nullable: &["c", "k"] },
];

#[derive(Clone, Copy, Debug, PartialEq, Eq, Hash, serde::Serialize, serde::Deserialize)]
enum Op {
    PIns1,
    PIns2,
    PUpdV1,
    PSetG1,
    PSetGNull1,
    PDel1,
    CIns1,
    CIns2,
    CUpdW1,
    CReparent1,
    COrphan1,
    CDel1,
    KIns,
    KDel,
    PDelCDel,
    PReinsert1,
}
const OPS: [Op; 16] = [
    Op::PIns1, Op::PIns2, Op::PUpdV1, Op::PSetG1, Op::PSetGNull1, Op::PDel1, Op::CIns1, Op::CIns2, Op::CUpdW1, Op::CReparent1, Op::COrphan1,
    Op::CDel1, Op::KIns, Op::KDel, Op::PDelCDel, Op::PReinsert1,
];

fn op_tables(op: Op) -> &'static [&'static str] {
    match op {
        Op::PIns1 | Op::PIns2 | Op::PUpdV1 | Op::PSetG1 | Op::PSetGNull1 | Op::PDel1 | Op::PReinsert1 => &["p"],
        Op::CIns1 | Op::CIns2 | Op::CUpdW1 | Op::CReparent1 | Op::COrphan1 | Op::CDel1 => &["c"],
        Op::KIns | Op::KDel => &["k"],
        Op::PDelCDel => &["p", "c"],
    }
}

fn op_sql(op: Op, k: usize) -> Vec<Statement> {
    let s = |q: String| Statement::Simple(q);
    match op {
        Op::PIns1 => vec![s("INSERT INTO p (id,v,g) VALUES (1,'a',NULL) ON CONFLICT (id) DO UPDATE SET v=excluded.v, g=excluded.g".into())],
        Op::PIns2 => vec![s("INSERT INTO p (id,v,g) VALUES (2,'b','h') ON CONFLICT (id) DO UPDATE SET v=excluded.v, g=excluded.g".into())],
        Op::PUpdV1 => vec![s(format!("UPDATE p SET v='x{k}' WHERE id=1"))],
        Op::PSetG1 => vec![s("UPDATE p SET g='gg' WHERE id=1".into())],
        Op::PSetGNull1 => vec![s("UPDATE p SET g=NULL WHERE id=1".into())],
        Op::PDel1 => vec![s("DELETE FROM p WHERE id=1".into())],
        Op::CIns1 => vec![s("INSERT INTO c (id,p_id,w) VALUES (1,1,'x') ON CONFLICT (id) DO UPDATE SET p_id=excluded.p_id, w=excluded.w".into())],
        Op::CIns2 => vec![s("INSERT INTO c (id,p_id,w) VALUES (2,1,'y') ON CONFLICT (id) DO UPDATE SET p_id=excluded.p_id, w=excluded.w".into())],
        Op::CUpdW1 => vec![s(format!("UPDATE c SET w='z{k}' WHERE id=1"))],
        Op::CReparent1 => vec![s("UPDATE c SET p_id=2 WHERE id=1".into())],
        Op::COrphan1 => vec![s("UPDATE c SET p_id=NULL WHERE id=1".into())],
        Op::CDel1 => vec![s("DELETE FROM c WHERE id=1".into())],
        Op::KIns => vec![s("INSERT INTO k (k1,k2,x) VALUES (1,'m','kx') ON CONFLICT (k1,k2) DO UPDATE SET x=excluded.x || '+'".into())],
        Op::KDel => vec![s("DELETE FROM k WHERE k1=1".into())],
        Op::PDelCDel => vec![s("DELETE FROM p WHERE id=1".into()), s("DELETE FROM c WHERE id=1".into())],
        Op::PReinsert1 => vec![s("DELETE FROM p WHERE id=1".into()), s(format!("INSERT INTO p (id,v,g) VALUES (1,'r{k}',NULL)"))],
    }
}

struct Sub {
    q: &'static Q,
    handle: MatcherHandle,
    rx: tokio::sync::mpsc::Receiver<QueryEvent>,
    /// replay of the stream: rowid -> cells
    replay: BTreeMap<u64, Vec<String>>,
    last_change_id: u64,
    keyed_before: Vec<Vec<String>>,
    /// the known LEFT JOIN defect hit this subscription earlier in the history: its state is
    /// stale from then on and is not judged again
    tainted: bool,
}

fn cells(v: &[SqliteValue]) -> Vec<String> {
    v.iter()
        .map(|x| match x {
            SqliteValue::Null => "NULL".to_string(),
            SqliteValue::Integer(i) => format!("i:{i}"),
            SqliteValue::Real(r) => format!("r:{}", r.0),
            SqliteValue::Text(t) => format!("t:{t}"),
            SqliteValue::Blob(b) => format!("b:{}", hex(b)),
        })
        .collect()
}

fn emit_count(id: &str) -> usize {
    vh::vnode::emit_count("matcher.batch_done.big", id)
}

async fn barrier(sub: &Sub) {
    let id = sub.handle.id().to_string();
    let before = emit_count(&id);
    let mut cand = MatchCandidates::new();
    let mut keys = indexmap::IndexMap::new();
    for i in 0..1000i64 {
        let pk = if sub.q.first_table == "k" {
            pack_columns(&[SqliteValue::Integer(9_000_000 + i), SqliteValue::Text("zz".into())]).unwrap()
        } else {
            pack_columns(&[SqliteValue::Integer(9_000_000 + i)]).unwrap()
        };
        keys.insert(pk, 1i64);
    }
    cand.insert(TableName(sub.q.first_table.into()), keys);
    sub.handle.changes_tx().send(cand).await.expect("matcher alive");
    let start = Instant::now();
    while emit_count(&id) == before {
        tokio::time::sleep(Duration::from_micros(300)).await;
        if start.elapsed() > Duration::from_secs(20) {
            machinery_error(&format!("matcher for {} did not process the barrier batch", sub.q.name));
        }
    }
}

struct CaseOut {
    violations: Vec<(String, Value)>,
    unsupported: Vec<&'static str>,
    events: usize,
    outcome: u64,
}

/// How the history reaches the node that holds the subscriptions.
#[derive(Clone, Copy, Debug, PartialEq, serde::Serialize, serde::Deserialize)]
enum Via {
    /// local transactions (api_v1_transactions -> broadcast_changes -> match_changes)
    Local,
    /// written on another node, each version delivered complete (process_multiple_changes -> match_changes)
    RemoteWhole,
    /// written on another node, each multi-change version delivered as two chunks, second half
    /// first (buffered path -> process_fully_buffered_changes -> match_changes_from_db_version)
    RemoteChunked,
}

fn run_history(tpl: &Template, tpl_author: &Template, hist: &[Op], queries: &[usize], via: Via) -> CaseOut {
    let s = Scratch::new("subs");
    let p = tpl.instantiate(&s.path().join("n"));
    // remote application: the author node runs the history first; its announcements are what the
    // subscribing node receives, step by step
    let mut authored: Vec<Vec<klukai_types::broadcast::ChangeV1>> = vec![];
    if via != Via::Local {
        let pa = tpl_author.instantiate(&s.path().join("a"));
        let mut author = RtNode::open(&pa, NodeOpts::default());
        for (k, op) in hist.iter().enumerate() {
            let (status, body, bc) = author.run(async |nd| nd.write(op_sql(*op, k), None).await);
            if status != 200 {
                machinery_error(&format!("history write failed on the author: {body:?}"));
            }
            authored.push(bc);
        }
    }
    let mut node = RtNode::open(&p, NodeOpts::default());
    let hist = hist.to_vec();
    let queries = queries.to_vec();
    node.run(async |nd| {
        let mut violations: Vec<(String, Value)> = vec![];
        let mut unsupported = vec![];
        let mut subs: Vec<Sub> = vec![];
        let subs_path = nd.agent.config().db.subscriptions_path();
        let schema = nd.agent.schema().read().clone();
        for qi in queries {
            let q = &QUERIES[qi];
            let res = nd.agent.subs_manager().get_or_insert(q.sql, subs_path.as_path(), &schema, nd.agent.pool(), nd.tripwire.clone());
            match res {
                Ok((handle, Some(created))) => subs.push(Sub { q, handle, rx: created.evt_rx, replay: BTreeMap::new(), last_change_id: 0, keyed_before: vec![], tainted: false }),
                Ok((_, None)) => machinery_error("subscription already existed"),
                Err(_e) => unsupported.push(q.name),
            }
        }
        // initial snapshot of every subscription: Columns, Row*, EndOfQuery
        for sub in subs.iter_mut() {
            loop {
                match tokio::time::timeout(Duration::from_secs(20), sub.rx.recv()).await {
                    Ok(Some(QueryEvent::Columns(_))) => {}
                    Ok(Some(QueryEvent::Row(rowid, c))) => {
                        sub.replay.insert(rowid.0, cells(&c));
                    }
                    Ok(Some(QueryEvent::EndOfQuery { .. })) => break,
                    other => machinery_error(&format!("unexpected initial event for {}: {other:?}", sub.q.name)),
                }
            }
        }
        rebaseline_settled().await;
        let mut events = 0;
        for (k, op) in hist.iter().enumerate() {
            for sub in subs.iter_mut() {
                let keyed = sub.q.keyed;
                sub.keyed_before = nd.read(move |c| dump_query(c, keyed)).await;
            }
            match via {
                Via::Local => {
                    let (status, body, _bc) = nd.write(op_sql(*op, k), None).await;
                    if status != 200 {
                        machinery_error(&format!("history write failed: {body:?}"));
                    }
                }
                Via::RemoteWhole => {
                    for c in authored[k].clone() {
                        nd.deliver(vec![c]).await.unwrap_or_else(|e| machinery_error(&format!("delivery failed: {e}")));
                    }
                }
                Via::RemoteChunked => {
                    use klukai_types::broadcast::{ChangeV1, Changeset};
                    for c in authored[k].clone() {
                        let split = match &c.changeset {
                            Changeset::Full { version, changes, seqs, last_seq, ts } if seqs.start().0 == 0 && seqs.end() == last_seq && last_seq.0 >= 1 => {
                                let mid = last_seq.0 / 2;
                                let a: Vec<_> = changes.iter().filter(|ch| ch.seq.0 <= mid).cloned().collect();
                                let b: Vec<_> = changes.iter().filter(|ch| ch.seq.0 > mid).cloned().collect();
                                let mk = |chs: Vec<klukai_types::change::Change>, lo: u64, hi: u64| ChangeV1 {
                                    actor_id: c.actor_id,
                                    changeset: Changeset::Full { version: *version, changes: chs, seqs: klukai_types::base::CrsqlSeq(lo)..=klukai_types::base::CrsqlSeq(hi), last_seq: *last_seq, ts: *ts },
                                };
                                Some((mk(a, 0, mid), mk(b, mid + 1, last_seq.0)))
                            }
                            _ => None,
                        };
                        match split {
                            Some((a, b)) => {
                                nd.deliver(vec![b]).await.unwrap_or_else(|e| machinery_error(&format!("delivery failed: {e}")));
                                nd.deliver(vec![a]).await.unwrap_or_else(|e| machinery_error(&format!("delivery failed: {e}")));
                                while nd.apply_one().await.is_some() {}
                                while nd.clear_one().await.is_some() {}
                            }
                            None => nd.deliver(vec![c]).await.unwrap_or_else(|e| machinery_error(&format!("delivery failed: {e}"))),
                        }
                    }
                }
            }
            for sub in subs.iter_mut() {
                barrier(sub).await;
                if sub.tainted {
                    while sub.rx.try_recv().is_ok() {}
                    continue;
                }
                let tag = format!("query '{}' after step {k} {op:?}", sub.q.name);
                let mut step_viol: Vec<(String, Value)> = vec![];
                let mut bad = |key: &str, d: Value| step_viol.push((format!("C11:{}:{key}", sub.q.name), json!({"at": tag, "d": d})));
                // events of this step
                let mut step_events = vec![];
                while let Ok(ev) = sub.rx.try_recv() {
                    step_events.push(ev);
                }
                for ev in &step_events {
                    match ev {
                        QueryEvent::Change(ty, rowid, c, id) => {
                            events += 1;
                            if id.0 != sub.last_change_id + 1 {
                                bad("change-ids-not-consecutive", json!({"got": id.0, "previous": sub.last_change_id}));
                            }
                            sub.last_change_id = id.0;
                            match ty {
                                ChangeType::Insert => {
                                    if sub.replay.insert(rowid.0, cells(c)).is_some() {
                                        bad("insert-event-for-an-existing-row", json!({"rowid": rowid.0}));
                                    }
                                }
                                ChangeType::Update => {
                                    if sub.replay.insert(rowid.0, cells(c)).is_none() {
                                        bad("update-event-for-an-unknown-row", json!({"rowid": rowid.0}));
                                    }
                                }
                                ChangeType::Delete => {
                                    if sub.replay.remove(&rowid.0).is_none() {
                                        bad("delete-event-for-an-unknown-row", json!({"rowid": rowid.0}));
                                    }
                                }
                            }
                        }
                        QueryEvent::Error(e) => bad("error-event", json!({"err": e.to_string()})),
                        other => bad("unexpected-event", json!({"ev": format!("{other:?}")})),
                    }
                }
                // materialised rows == the query on the node database
                let sql = sub.q.sql;
                let mut want = nd.read(move |c| dump_query(c, sql)).await;
                want.sort();
                let ncols = sub.handle.parsed_columns().len();
                let cols: Vec<String> = (0..ncols).map(|i| format!("col_{i}")).collect();
                let sub_db = klukai_types::pubsub::Matcher::sub_db_path(subs_path.as_path(), sub.handle.id());
                let qsql = format!("SELECT {} FROM query", cols.join(","));
                let mut got = tokio::task::block_in_place(|| {
                    let c = rusqlite::Connection::open_with_flags(sub_db.as_std_path(), rusqlite::OpenFlags::SQLITE_OPEN_READ_ONLY).unwrap();
                    dump_query(&c, &qsql)
                });
                got.sort();
                if got != want && std::env::var("SUBS_DEBUG").is_ok() {
                    eprintln!("DIVERGE {} step {k} {op:?}: events={} got={got:?} want={want:?} alive={} baseline={}", sub.q.name, step_events.len(), alive_tasks(), baseline());
                }
                if got != want {
                    bad("materialised-rows-differ-from-query", json!({"materialised": got, "query_result": want}));
                }
                let mut replayed: Vec<Vec<String>> = sub.replay.values().cloned().collect();
                replayed.sort();
                if replayed != want {
                    bad("replayed-event-stream-differs-from-query", json!({"replayed": replayed, "query_result": want}));
                }
                let keyed = sub.q.keyed;
                let keyed_after = nd.read(move |c| dump_query(c, keyed)).await;
                let mut a = sub.keyed_before.clone();
                let mut b = keyed_after.clone();
                a.sort();
                b.sort();
                if a == b && !step_events.is_empty() {
                    bad("event-emitted-although-the-result-did-not-change", json!({"events": step_events.len()}));
                }
                if !step_viol.is_empty() {
                    // the failing pattern, not the query name, identifies a finding
                    let only_nullable_side = !sub.q.nullable.is_empty() && op_tables(*op).iter().all(|t| sub.q.nullable.contains(t));
                    if only_nullable_side {
                        sub.tainted = true;
                        violations.push((
                            "C11:left-join:change-on-nullable-side-only".to_string(),
                            json!({"query": sub.q.sql, "at": tag, "first": step_viol[0].1}),
                        ));
                    } else {
                        violations.extend(step_viol);
                    }
                }
            }
        }
        // stop the matchers before the runtime goes away
        nd.agent.subs_manager().drop_handles().await;
        CaseOut { violations, unsupported, events, outcome: digest(&events) }
    })
}

fn c11(cli: &Cli) {
    let rep = Report::new("C11", cli.tier, cli.seed);
    sweep_stale_scratch();
    let tpl = Template::build(0, SCHEMA);
    let tpl_author = Template::build(1, SCHEMA);
    let all_queries: Vec<usize> = (0..QUERIES.len()).collect();
    if let Some(p) = &cli.replay {
        let r = load_replay(p);
        let hist: Vec<Op> = serde_json::from_value(r["history"].clone()).unwrap();
        let via: Via = serde_json::from_value(r["via"].clone()).unwrap_or(Via::Local);
        let out = run_history(&tpl, &tpl_author, &hist, &all_queries, via);
        for (k, d) in &out.violations {
            println!("reproduced {k}: {d}");
        }
        std::process::exit(if out.violations.is_empty() { 0 } else { 1 });
    }
    let maxlen = cli.tier.pick(2, 3);
    let mut hists: Vec<Vec<Op>> = vec![];
    let mut cur: Vec<Vec<Op>> = vec![vec![]];
    for _ in 0..maxlen {
        let mut next = vec![];
        for h in &cur {
            for o in OPS {
                let mut t = h.clone();
                t.push(o);
                next.push(t);
            }
        }
        hists.extend(next.iter().cloned());
        cur = next;
    }
    // only maximal histories need to run: every prefix is checked on the way
    let hists: Vec<Vec<Op>> = hists.into_iter().filter(|h| h.len() == maxlen).collect();
    // every history applied locally; applied remotely (whole versions, and chunked out of order)
    // for every history in thorough, and in quick for those whose first step sets the stage
    // (inserts the parent row or the child row)
    let tier = cli.tier;
    let hists: Vec<(Vec<Op>, Via)> = hists
        .into_iter()
        .flat_map(|h| {
            let remote = tier == Tier::Thorough || matches!(h[0], Op::PIns1 | Op::CIns1);
            let mut v = vec![(h.clone(), Via::Local)];
            if remote {
                v.push((h.clone(), Via::RemoteWhole));
                v.push((h, Via::RemoteChunked));
            }
            v
        })
        .collect();
    let deadline = Instant::now() + Duration::from_secs(cli.tier.pick(300, 1700));
    let via_counts: [std::sync::atomic::AtomicU64; 3] = [const { std::sync::atomic::AtomicU64::new(0) }; 3];
    let execs_a = std::sync::atomic::AtomicU64::new(0);
    let steps_a = std::sync::atomic::AtomicU64::new(0);
    let skipped = std::sync::atomic::AtomicU64::new(0);
    let unsupported_m: std::sync::Mutex<Vec<&str>> = std::sync::Mutex::new(vec![]);
    // histories are independent executions (own node, own runtime, own matchers): run them on a few threads
    let pool = rayon::ThreadPoolBuilder::new().num_threads(6).build().unwrap();
    pool.install(|| {
        use rayon::prelude::*;
        hists.par_iter().for_each(|(h, via)| {
            use std::sync::atomic::Ordering::Relaxed;
            let via = *via;
            if Instant::now() > deadline {
                skipped.fetch_add(1, Relaxed);
                return;
            }
            let out = run_history(&tpl, &tpl_author, h, &all_queries, via);
            via_counts[via as usize].fetch_add(1, Relaxed);
            let n = execs_a.fetch_add(1, Relaxed) + 1;
            steps_a.fetch_add((h.len() * (QUERIES.len() - out.unsupported.len())) as u64, Relaxed);
            *unsupported_m.lock().unwrap() = out.unsupported.clone();
            if !out.violations.is_empty() {
                let again = run_history(&tpl, &tpl_author, h, &all_queries, via);
                let k1: Vec<&String> = out.violations.iter().map(|v| &v.0).collect();
                let k2: Vec<&String> = again.violations.iter().map(|v| &v.0).collect();
                if k1 != k2 {
                    machinery_error(&format!("non-deterministic history {h:?}: {k1:?} vs {k2:?}"));
                }
            }
            for (k, d) in out.violations {
                rep.violation(&k, json!({"history": h, "via": via, "d": d}));
            }
            rep.outcome(out.outcome);
            if out.events > 0 {
                rep.nontrivial(digest(&format!("{h:?}{via:?}")));
            }
            if n % 41 == 7 {
                rep.sample(json!({"history": h, "via": via, "events_seen": out.events}));
            }
        });
    });
    let execs = execs_a.load(std::sync::atomic::Ordering::Relaxed);
    let steps = steps_a.load(std::sync::atomic::Ordering::Relaxed);
    let unsupported = unsupported_m.lock().unwrap().clone();
    let via_counts: Vec<u64> = via_counts.iter().map(|a| a.load(std::sync::atomic::Ordering::Relaxed)).collect();
    let sk = skipped.load(std::sync::atomic::Ordering::Relaxed);
    let capped = if sk > 0 { Some(format!("wall-clock cap: {sk} of {} (history, way of application) pairs not run", hists.len())) } else { None };
    rep.set("states", execs);
    rep.set("transitions", steps);
    rep.set("evaluations", steps);
    rep.set("traces_validated_against_impl", steps);
    rep.set("queries", json!(QUERIES.iter().map(|q| json!({"name": q.name, "sql": q.sql})).collect::<Vec<_>>()));
    rep.set("unsupported_queries", json!(unsupported));
    rep.set("exhaustive", capped.is_none());
    if let Some(c) = capped {
        rep.set("cap_hit", c);
    }
    rep.set("bounds", json!({"operations": OPS.len(), "history_len": maxlen, "application": {"local": via_counts[0], "remote_whole_versions": via_counts[1], "remote_chunked_out_of_order": via_counts[2]}}));
    rep.assume("quiescence without timing: a barrier batch of 1000 non-existent keys is pushed through the subscription's own candidate channel (reaches the matcher's immediate-processing threshold) and the harness waits for the matcher.batch_done emit");
    rep.assume("'result did not change' is judged on the query extended with the primary keys of its tables (row identity), so a row replaced by an identical-looking row of another key counts as a change");
    rep.require_nontrivial(20, "a history is non-trivial when at least one change event was emitted by some subscription");
    rep.finish();
}

// ------------------------------------------------------------------------------------------
// C14: row-level update notifications
// ------------------------------------------------------------------------------------------

const SCHEMA14: &str = "CREATE TABLE t (id INTEGER PRIMARY KEY NOT NULL, a TEXT NOT NULL DEFAULT '');";

#[derive(Clone, Copy, Debug, PartialEq, Eq, Hash, serde::Serialize, serde::Deserialize)]
enum U {
    Ins(i64),
    Upd(i64),
    Del(i64),
}

fn u_sql(u: U, k: usize) -> Statement {
    match u {
        U::Ins(id) => Statement::Simple(format!("INSERT INTO t (id,a) VALUES ({id},'i{k}') ON CONFLICT (id) DO UPDATE SET a=excluded.a")),
        U::Upd(id) => Statement::Simple(format!("UPDATE t SET a='u{k}' WHERE id={id}")),
        U::Del(id) => Statement::Simple(format!("DELETE FROM t WHERE id={id}")),
    }
}

#[derive(Clone, Debug, serde::Serialize, serde::Deserialize)]
struct Case14 {
    seq: Vec<U>,
    /// None: the listener sits on the writer itself; Some(batches): the observer receives the
    /// writer's versions (indexes into the produced versions) grouped into these batches
    remote: Option<Vec<Vec<usize>>>,
    /// let the feed batch everything (no warm-up): exercises the 600 ms aggregation window
    cold: bool,
}

struct Out14 {
    violations: Vec<(String, Value)>,
    notifications: usize,
    outcome: u64,
}

async fn drain_until_sentinel(rx: &mut tokio::sync::mpsc::Receiver<klukai_types::api::NotifyEvent>, sentinel: i64, log: &mut Vec<(ChangeType, i64)>) -> bool {
    let deadline = Instant::now() + Duration::from_secs(6);
    loop {
        match tokio::time::timeout_at(deadline.into(), rx.recv()).await {
            Ok(Some(klukai_types::api::TypedNotifyEvent::Notify(ty, pk))) => {
                let id = match pk.first() {
                    Some(SqliteValue::Integer(i)) => *i,
                    _ => -1,
                };
                if id == sentinel {
                    return true;
                }
                if id < 9_000_000 {
                    log.push((ty, id));
                }
            }
            Ok(Some(_)) => {}
            Ok(None) | Err(_) => return false,
        }
    }
}

fn run_case14(tpl_a: &Template, tpl_b: &Template, case: &Case14) -> Out14 {
    let s = Scratch::new("upd");
    // the writer produces the versions
    let pa = tpl_a.instantiate(&s.path().join("a"));
    let mut a = RtNode::open(&pa, NodeOpts::default());
    let observe_on_writer = case.remote.is_none();
    let case = case.clone();
    if observe_on_writer {
        return a.run(async |nd| observe(nd, &case, vec![]).await);
    }
    let seq = case.seq.clone();
    let versions: Vec<klukai_types::broadcast::ChangeV1> = a.run(async |nd| {
        let mut out = vec![];
        for (k, u) in seq.iter().enumerate() {
            let (st, _b, bc) = nd.write(vec![u_sql(*u, k)], None).await;
            assert_eq!(st, 200);
            out.extend(bc);
        }
        out
    });
    let pb = tpl_b.instantiate(&s.path().join("b"));
    let mut b = RtNode::open(&pb, NodeOpts::default());
    b.run(async |nd| observe(nd, &case, versions).await)
}

async fn observe(nd: &mut Node, case: &Case14, versions: Vec<klukai_types::broadcast::ChangeV1>) -> Out14 {
    let mut violations: Vec<(String, Value)> = vec![];
    let schema = nd.agent.schema().read().clone();
    let (handle, created) = nd.agent.updates_manager().get_or_insert("t", &schema, nd.agent.pool(), nd.tripwire.clone()).expect("update feed");
    let mut rx = created.expect("new feed").evt_rx;
    let mut log: Vec<(ChangeType, i64)> = vec![];
    let mut sentinel = 1000i64;
    if !case.cold {
        // warm-up: one full batch so that the feed processes every later message at once
        let mut cand = MatchCandidates::new();
        let mut keys = indexmap::IndexMap::new();
        for i in 0..1000i64 {
            keys.insert(pack_columns(&[SqliteValue::Integer(9_000_000 + i)]).unwrap(), 1i64);
        }
        cand.insert(TableName("t".into()), keys);
        handle.changes_tx().send(cand).await.unwrap();
    }
    rebaseline_settled().await;
    let mut changed: BTreeMap<i64, bool> = BTreeMap::new();
    let row = async |nd: &Node, id: i64| nd.read(move |c| dump_query(c, &format!("SELECT a FROM t WHERE id={id}"))).await;
    // steps: local requests, or remote batches
    let steps: Vec<Vec<usize>> = match &case.remote {
        None => (0..case.seq.len()).map(|i| vec![i]).collect(),
        Some(b) => b.clone(),
    };
    let nsteps = steps.len();
    for (si, step) in steps.into_iter().enumerate() {
        let before: Vec<_> = [1i64, 2].iter().map(|_| ()).collect();
        let _ = before;
        let b1 = row(nd, 1).await;
        let b2 = row(nd, 2).await;
        match &case.remote {
            None => {
                let (st, _b, _bc) = nd.write(vec![u_sql(case.seq[step[0]], step[0])], None).await;
                assert_eq!(st, 200);
            }
            Some(_) => {
                let batch: Vec<_> = step.iter().filter(|i| **i < versions.len()).map(|i| versions[*i].clone()).collect();
                if !batch.is_empty() {
                    nd.deliver(batch).await.unwrap();
                }
                while nd.apply_one().await.is_some() {}
            }
        }
        if row(nd, 1).await != b1 {
            changed.insert(1, true);
        }
        if row(nd, 2).await != b2 {
            changed.insert(2, true);
        }
        // cold mode: only one quiescent point, at the very end
        if case.cold && si + 1 != nsteps {
            continue;
        }
        sentinel += 1;
        let sid = sentinel;
        let (st, _b, _bc) = nd.write(vec![Statement::Simple(format!("INSERT INTO t (id,a) VALUES ({sid},'s')"))], None).await;
        assert_eq!(st, 200);
        if !drain_until_sentinel(&mut rx, sid, &mut log).await {
            violations.push(("C14:feed-stalled-no-notification-for-a-committed-change".into(), json!({"step": si})));
            break;
        }
        for id in [1i64, 2] {
            let present = !row(nd, id).await.is_empty();
            let last = log.iter().rev().find(|(_, k)| *k == id).map(|(t, _)| *t);
            if *changed.get(&id).unwrap_or(&false) && last.is_none() {
                violations.push(("C14:changed-key-never-notified".into(), json!({"key": id, "step": si, "notifications": format!("{log:?}")})));
            }
            if let Some(last) = last {
                let says_deleted = matches!(last, ChangeType::Delete);
                if says_deleted == present {
                    violations.push((
                        format!("C14:last-notification-says-{}-but-row-{}", if says_deleted { "deleted" } else { "updated" }, if present { "exists" } else { "is-gone" }),
                        json!({"key": id, "step": si, "notifications": format!("{log:?}")}),
                    ));
                }
            }
        }
    }
    handle.cleanup().await;
    Out14 { notifications: log.len(), outcome: digest(&format!("{log:?}")), violations }
}

fn compositions(n: usize) -> Vec<Vec<usize>> {
    // ways to cut a sequence of n items into consecutive groups (sizes)
    if n == 0 {
        return vec![vec![]];
    }
    let mut out = vec![];
    for first in 1..=n {
        for mut rest in compositions(n - first) {
            let mut v = vec![first];
            v.append(&mut rest);
            out.push(v);
        }
    }
    out
}

fn permutations(n: usize) -> Vec<Vec<usize>> {
    if n == 0 {
        return vec![vec![]];
    }
    let mut out = vec![];
    for p in permutations(n - 1) {
        for pos in 0..=p.len() {
            let mut q = p.clone();
            q.insert(pos, n - 1);
            out.push(q);
        }
    }
    out
}

fn c14(cli: &Cli) {
    let rep = Report::new("C14", cli.tier, cli.seed);
    sweep_stale_scratch();
    let tpl_a = Template::build(0, SCHEMA14);
    let tpl_b = Template::build(1, SCHEMA14);
    if let Some(p) = &cli.replay {
        let r = load_replay(p);
        let case: Case14 = serde_json::from_value(r["case"].clone()).unwrap();
        let out = run_case14(&tpl_a, &tpl_b, &case);
        for (k, d) in &out.violations {
            println!("reproduced {k}: {d}");
        }
        std::process::exit(if out.violations.is_empty() { 0 } else { 1 });
    }
    let ops: Vec<U> = vec![U::Ins(1), U::Upd(1), U::Del(1), U::Ins(2), U::Del(2)];
    let len = cli.tier.pick(3, 4);
    let mut seqs: Vec<Vec<U>> = vec![vec![]];
    for _ in 0..len {
        let mut next = vec![];
        for s in &seqs {
            for o in &ops {
                let mut t = s.clone();
                t.push(*o);
                next.push(t);
            }
        }
        seqs = next;
    }
    // every sequence must start by creating a row, otherwise its first steps are no-ops
    let seqs: Vec<Vec<U>> = seqs.into_iter().filter(|s| matches!(s[0], U::Ins(_))).collect();
    let mut cases: Vec<Case14> = vec![];
    for s in &seqs {
        cases.push(Case14 { seq: s.clone(), remote: None, cold: false });
    }
    // remote: every arrival order x every batching (thorough), a curated set (quick)
    for s in &seqs {
        let n = s.len();
        let perms = permutations(n);
        for p in &perms {
            let comps = if cli.tier == Tier::Thorough { compositions(n) } else { vec![vec![1; n], vec![n]] };
            for c in comps {
                let mut batches = vec![];
                let mut i = 0;
                for sz in c {
                    batches.push(p[i..i + sz].to_vec());
                    i += sz;
                }
                cases.push(Case14 { seq: s.clone(), remote: Some(batches), cold: false });
            }
            if cli.tier == Tier::Quick && *p != perms[0] && *p != perms[perms.len() - 1] && digest(&format!("{s:?}{p:?}")) % 4 != 0 {
                // quick: in-order, reversed and a deterministic quarter of the other orders
                cases.truncate(cases.len() - 2);
            }
        }
    }
    // cold feed (600 ms aggregation window): a few sequences only, they cost a second each
    for s in seqs.iter().step_by(cli.tier.pick(9, 3)) {
        cases.push(Case14 { seq: s.clone(), remote: None, cold: true });
        let n = s.len();
        cases.push(Case14 { seq: s.clone(), remote: Some((0..n).rev().map(|i| vec![i]).collect()), cold: true });
    }
    let deadline = Instant::now() + Duration::from_secs(cli.tier.pick(300, 1700));
    let total = cases.len();
    let execs_a = std::sync::atomic::AtomicU64::new(0);
    let skipped = std::sync::atomic::AtomicU64::new(0);
    // cases are independent executions (own nodes, own runtimes, own feed): a few threads
    let pool = rayon::ThreadPoolBuilder::new().num_threads(6).build().unwrap();
    pool.install(|| {
        use rayon::prelude::*;
        use std::sync::atomic::Ordering::Relaxed;
        cases.par_iter().for_each(|case| {
            if Instant::now() > deadline {
                skipped.fetch_add(1, Relaxed);
                return;
            }
            let out = run_case14(&tpl_a, &tpl_b, case);
            let n = execs_a.fetch_add(1, Relaxed) + 1;
            if !out.violations.is_empty() {
                let again = run_case14(&tpl_a, &tpl_b, case);
                let k1: Vec<&String> = out.violations.iter().map(|v| &v.0).collect();
                let k2: Vec<&String> = again.violations.iter().map(|v| &v.0).collect();
                if k1 != k2 {
                    machinery_error(&format!("non-deterministic case {case:?}: {k1:?} vs {k2:?}"));
                }
            }
            for (k, d) in out.violations {
                rep.violation(&k, json!({"case": case, "d": d}));
            }
            rep.outcome(out.outcome);
            if out.notifications >= 2 {
                rep.nontrivial(digest(&format!("{case:?}")));
            }
            if n % 53 == 9 {
                rep.sample(json!({"case": case, "notifications": out.notifications}));
            }
        });
    });
    let execs = execs_a.load(std::sync::atomic::Ordering::Relaxed);
    let sk = skipped.load(std::sync::atomic::Ordering::Relaxed);
    let capped = if sk > 0 { Some(format!("wall-clock cap: {sk} of {total} cases not run")) } else { None };
    rep.set("states", execs);
    rep.set("transitions", execs * len as u64);
    rep.set("evaluations", execs);
    rep.set("traces_validated_against_impl", execs);
    rep.set("exhaustive", capped.is_none());
    if let Some(c) = capped {
        rep.set("cap_hit", c);
    }
    rep.set("bounds", json!({"operations": format!("{ops:?}"), "sequence_len": len, "cases": total,
        "remote": "every arrival order of the versions; batchings: each alone and all in one batch (thorough: every composition)", "cold_feed_cases": "subset"}));
    rep.assume("a quiescent point is closed by a sentinel row written on the observing node after the step: the feed is FIFO, so the sentinel's notification arrives after the step's");
    rep.assume("warm feed: a first full batch (1000 fake keys) makes the feed process later messages immediately; the cold cases leave the 600 ms aggregation window in place");
    rep.require_nontrivial(20, "a case is non-trivial when at least two notifications for the keys under test were received");
    rep.finish();
}

// ------------------------------------------------------------------------------------------
// C13: subscriptions across restarts
// ------------------------------------------------------------------------------------------

const Q13: &[(&str, &str, &str)] = &[
    ("projection", "SELECT id, v FROM p", "p"),
    ("inner_join", "SELECT p.id, p.v, c.id, c.w FROM p JOIN c ON c.p_id = p.id", "p"),
];

#[derive(Clone, Debug, serde::Serialize, serde::Deserialize)]
struct Case13 {
    query: usize,
    /// transactions processed (with a barrier each) before the stop
    before: usize,
    /// graceful: transactions arriving after the trip and before the handles are dropped
    after_trip: usize,
    /// graceful: trip while a batch is being processed (matcher parked before its commit)
    trip_mid_batch: bool,
    /// abrupt: crash image = sub.sqlite WAL cut after this many commit frames (None: graceful)
    wal_commits: Option<usize>,
    /// abrupt stop inside a graceful shutdown: the image is taken after the trip and the late
    /// transactions, while the handles are still alive (the draining window)
    #[serde(default)]
    kill_in_drain: bool,
}

fn tx13(k: usize) -> Vec<Statement> {
    let s = |q: String| Statement::Simple(q);
    match k % 4 {
        0 => vec![s("INSERT INTO p (id,v,g) VALUES (1,'a',NULL) ON CONFLICT (id) DO UPDATE SET v=excluded.v || '+'".into())],
        1 => vec![s("INSERT INTO c (id,p_id,w) VALUES (1,1,'x') ON CONFLICT (id) DO UPDATE SET w=excluded.w || '+'".into())],
        2 => vec![s(format!("UPDATE p SET v='u{k}' WHERE id=1"))],
        _ => vec![s("INSERT INTO p (id,v,g) VALUES (2,'b','h') ON CONFLICT (id) DO UPDATE SET v=excluded.v || '+'".into())],
    }
}

/// commit boundaries (byte offsets just after a commit frame) of a WAL file
fn wal_commit_offsets(wal: &[u8]) -> Vec<usize> {
    if wal.len() < 32 {
        return vec![];
    }
    let page = u32::from_be_bytes([wal[8], wal[9], wal[10], wal[11]]) as usize;
    let mut out = vec![];
    let mut off = 32;
    while off + 24 + page <= wal.len() {
        let dbsize = u32::from_be_bytes([wal[off + 4], wal[off + 5], wal[off + 6], wal[off + 7]]);
        off += 24 + page;
        if dbsize != 0 {
            out.push(off);
        }
    }
    out
}

static GATE_ARMED: std::sync::atomic::AtomicBool = std::sync::atomic::AtomicBool::new(false);
static GATE_PARKED: std::sync::atomic::AtomicBool = std::sync::atomic::AtomicBool::new(false);
static GATE_OPEN: std::sync::atomic::AtomicBool = std::sync::atomic::AtomicBool::new(false);

fn install_gate() {
    use std::sync::atomic::Ordering::SeqCst;
    klukai_types::verif::set_point_handler(Some(std::sync::Arc::new(|name: &str, _d: &str| {
        if name == "matcher.before_commit" && GATE_ARMED.swap(false, SeqCst) {
            GATE_PARKED.store(true, SeqCst);
            let start = Instant::now();
            tokio::task::block_in_place(|| {
                while !GATE_OPEN.load(SeqCst) {
                    std::thread::sleep(Duration::from_micros(200));
                    if start.elapsed() > Duration::from_secs(20) {
                        break;
                    }
                }
            });
            GATE_OPEN.store(false, SeqCst);
            GATE_PARKED.store(false, SeqCst);
        }
    })));
}

struct Out13 {
    violations: Vec<(String, Value)>,
    outcome: u64,
    /// number of commit boundaries of the subscription's WAL (for enumerating crash images)
    wal_commits: usize,
}

fn run_case13(tpl: &Template, case: &Case13) -> Out13 {
    use std::sync::atomic::Ordering::SeqCst;
    let s = Scratch::new("sub13");
    let db = tpl.instantiate(&s.path().join("n"));
    let (qname, qsql, qtable) = Q13[case.query];
    let mut violations: Vec<(String, Value)> = vec![];
    let mut node = RtNode::open(&db, NodeOpts::default());
    let case2 = case.clone();
    // ---- first life
    let (sub_id, last_id_before, wal_image, graceful_ok) = node.run(async |nd| {
        // rows that exist before the subscription does: they enter its materialised rows through
        // the initial query, not through its change log
        let (st, _b, _bc) = nd
            .write(vec![Statement::Simple("INSERT INTO p (id,v,g) VALUES (5,'pre',NULL)".into()), Statement::Simple("INSERT INTO c (id,p_id,w) VALUES (5,5,'pre')".into())], None)
            .await;
        assert_eq!(st, 200);
        let subs_path = nd.agent.config().db.subscriptions_path();
        let schema = nd.agent.schema().read().clone();
        let (handle, created) = nd.agent.subs_manager().get_or_insert(qsql, subs_path.as_path(), &schema, nd.agent.pool(), nd.tripwire.clone()).expect("create sub");
        let mut rx = created.unwrap().evt_rx;
        loop {
            match tokio::time::timeout(Duration::from_secs(20), rx.recv()).await {
                Ok(Some(QueryEvent::EndOfQuery { .. })) => break,
                Ok(Some(_)) => {}
                other => machinery_error(&format!("initial events: {other:?}")),
            }
        }
        rebaseline_settled().await;
        let qstatic: &'static Q = Box::leak(Box::new(Q { name: qname, sql: qsql, keyed: qsql, first_table: qtable, nullable: &[] }));
        let sub = Sub { q: qstatic, handle, rx, replay: BTreeMap::new(), last_change_id: 0, keyed_before: vec![], tainted: false };
        let mut sub = sub;
        let mut last_id = 0u64;
        for k in 0..case2.before {
            let (st, _b, _bc) = nd.write(tx13(k), None).await;
            assert_eq!(st, 200);
            barrier(&sub).await;
            while let Ok(ev) = sub.rx.try_recv() {
                if let QueryEvent::Change(_, _, _, id) = ev {
                    last_id = id.0;
                }
            }
        }
        let id = sub.handle.id();
        let sub_db = klukai_types::pubsub::Matcher::sub_db_path(subs_path.as_path(), id);
        if case2.wal_commits.is_some() && !case2.kill_in_drain {
            // abrupt: take the files as they are; the caller cuts the WAL
            let wal = std::fs::read(format!("{sub_db}-wal")).unwrap_or_default();
            let main = std::fs::read(sub_db.as_std_path()).unwrap_or_default();
            return (id, last_id, Some((main, wal)), true);
        }
        // ---- graceful shutdown
        let mut k = case2.before;
        if case2.trip_mid_batch {
            GATE_ARMED.store(true, SeqCst);
            let (st, _b, _bc) = nd.write(tx13(k), None).await;
            assert_eq!(st, 200);
            k += 1;
            // push the batch through and wait until the matcher is parked before its commit
            let mut cand = MatchCandidates::new();
            let mut keys = indexmap::IndexMap::new();
            for i in 0..1000i64 {
                keys.insert(pack_columns(&[SqliteValue::Integer(9_000_000 + i)]).unwrap(), 1i64);
            }
            cand.insert(TableName(qtable.into()), keys);
            sub.handle.changes_tx().send(cand).await.unwrap();
            let start = Instant::now();
            while !GATE_PARKED.load(SeqCst) {
                tokio::time::sleep(Duration::from_micros(300)).await;
                if start.elapsed() > Duration::from_secs(20) {
                    machinery_error("matcher never reached the gate");
                }
            }
        }
        // trip
        let _ = nd.tripwire_tx.send(()).await;
        tokio::time::sleep(Duration::from_millis(2)).await;
        for _ in 0..case2.after_trip {
            let (st, _b, _bc) = nd.write(tx13(k), None).await;
            assert_eq!(st, 200);
            k += 1;
            // the matcher may already be winding down, so task counts are no guide here: wait
            // until the transaction's own broadcast task (a counted task) has handed its
            // candidates over, i.e. only the matcher itself is still counted
            let start = Instant::now();
            while klukai_types::spawn::PENDING_HANDLES.load(SeqCst) > 1 {
                tokio::time::sleep(Duration::from_micros(200)).await;
                if start.elapsed() > Duration::from_secs(10) {
                    machinery_error("broadcast task of a late transaction did not finish");
                }
            }
        }
        if case2.kill_in_drain {
            // the process dies here: shutdown was requested, the late transactions are committed on
            // the node database, the matcher is draining (its handles are still alive)
            tokio::time::sleep(Duration::from_millis(5)).await;
            let wal = std::fs::read(format!("{sub_db}-wal")).unwrap_or_default();
            let main = std::fs::read(sub_db.as_std_path()).unwrap_or_default();
            return (id, last_id, Some((main, wal)), true);
        }
        if case2.trip_mid_batch {
            GATE_OPEN.store(true, SeqCst);
        }
        // what the node does on shutdown: drop the handles, wait for the counted tasks
        let Sub { handle, mut rx, .. } = sub;
        drop(handle);
        nd.agent.subs_manager().drop_handles().await;
        let start = Instant::now();
        let mut finished = true;
        while klukai_types::spawn::PENDING_HANDLES.load(SeqCst) != 0 {
            // keep the event channel drained so a blocked send cannot hold the matcher
            while let Ok(ev) = rx.try_recv() {
                if let QueryEvent::Change(_, _, _, id) = ev {
                    last_id = last_id.max(id.0);
                }
            }
            tokio::time::sleep(Duration::from_millis(1)).await;
            if start.elapsed() > Duration::from_secs(15) {
                finished = false;
                break;
            }
        }
        while let Ok(ev) = rx.try_recv() {
            if let QueryEvent::Change(_, _, _, id) = ev {
                last_id = last_id.max(id.0);
            }
        }
        (id, last_id, None, finished)
    });
    if !graceful_ok {
        violations.push(("C13:matcher-did-not-finish-on-graceful-shutdown".into(), json!({"case": case})));
    }
    node.crash();
    let subs_dir = db.parent().unwrap().join("subscriptions");
    let sub_dir = subs_dir.join(sub_id.as_simple().to_string());
    let mut wal_commits = 0;
    if let Some((main, wal)) = &wal_image {
        let offs = wal_commit_offsets(wal);
        wal_commits = offs.len();
        let cut = case.wal_commits.unwrap();
        let keep = if cut == 0 { 0 } else { offs.get(cut - 1).copied().unwrap_or(wal.len()) };
        std::fs::write(sub_dir.join("sub.sqlite"), main).unwrap();
        std::fs::write(sub_dir.join("sub.sqlite-wal"), &wal[..keep]).unwrap();
        let _ = std::fs::remove_file(sub_dir.join("sub.sqlite-shm"));
    }
    // state the previous life left behind
    let state_before: Option<String> = rusqlite::Connection::open(sub_dir.join("sub.sqlite"))
        .ok()
        .and_then(|c| c.query_row("SELECT value FROM meta WHERE key = 'state'", [], |r| r.get(0)).ok());
    let max_change_before: Option<u64> = rusqlite::Connection::open(sub_dir.join("sub.sqlite"))
        .ok()
        .and_then(|c| c.query_row("SELECT COALESCE(MAX(id),0) FROM changes", [], |r| r.get(0)).ok());
    // ---- restart through the real setup()
    let rt = new_runtime(2);
    let dbp = db.clone();
    let case3 = case.clone();
    let v2: Vec<(String, Value)> = rt.block_on(async move {
        let mut viol = vec![];
        let conf = klukai_types::config::Config::builder()
            .db_path(dbp.display().to_string())
            .gossip_addr("127.0.0.1:0".parse().unwrap())
            .api_addr("127.0.0.1:0".parse().unwrap())
            .build()
            .unwrap();
        let (tripwire, worker, _tx) = klukai_types::tripwire::Tripwire::new_simple();
        tokio::spawn(worker);
        let (agent, opts) = match klukai_agent::agent::setup(conf, tripwire).await {
            Ok(x) => x,
            Err(e) => {
                viol.push(("C13:restart-failed".to_string(), json!({"err": e.to_string()})));
                return viol;
            }
        };
        let restored = opts.subs_manager.get(&sub_id);
        let graceful = case3.wal_commits.is_none();
        let completed = state_before.as_deref() == Some("completed");
        if graceful && !completed {
            viol.push(("C13:graceful-shutdown-did-not-end-completed".to_string(), json!({"state": state_before})));
        }
        if !completed {
            if restored.is_some() {
                viol.push(("C13:subscription-served-after-unclean-stop".to_string(), json!({"state": state_before})));
            }
            if sub_dir.exists() {
                viol.push(("C13:unclean-subscription-directory-kept".to_string(), json!({"state": state_before})));
            }
            return viol;
        }
        let handle = match restored {
            Some(h) => h,
            None => {
                viol.push(("C13:completed-subscription-not-restored".to_string(), json!({})));
                return viol;
            }
        };
        // rows == query on the node database
        let want = {
            let conn = agent.pool().read().await.unwrap();
            let mut w = tokio::task::block_in_place(|| dump_query(&conn, qsql));
            w.sort();
            w
        };
        let ncols = handle.parsed_columns().len();
        let cols: Vec<String> = (0..ncols).map(|i| format!("col_{i}")).collect();
        let sub_db = sub_dir.join("sub.sqlite");
        let read_sub = |sql: String| {
            let p = sub_db.clone();
            tokio::task::block_in_place(move || {
                let c = rusqlite::Connection::open_with_flags(&p, rusqlite::OpenFlags::SQLITE_OPEN_READ_ONLY).unwrap();
                dump_query(&c, &sql)
            })
        };
        let mut got = read_sub(format!("SELECT {} FROM query", cols.join(",")));
        got.sort();
        if got != want {
            viol.push(("C13:restored-rows-differ-from-query".to_string(), json!({"materialised": got, "query_result": want})));
        }
        // change log ends with the last change produced before shutdown
        let max_now = max_change_before.unwrap_or(0);
        if graceful && case3.after_trip == 0 && !case3.trip_mid_batch && max_now != last_id_before {
            viol.push(("C13:change-log-does-not-end-with-last-change-before-shutdown".to_string(), json!({"log_max": max_now, "last_event_seen": last_id_before})));
        }
        if max_now < last_id_before {
            viol.push(("C13:change-log-shorter-than-events-delivered".to_string(), json!({"log_max": max_now, "last_event_seen": last_id_before})));
        }
        // new events continue with the next change id
        let sender = opts.subs_bcast_cache.read().await.get(&sub_id).cloned();
        let mut brx = match sender {
            Some(s) => s.subscribe(),
            None => {
                viol.push(("C13:restored-subscription-has-no-event-channel".to_string(), json!({})));
                return viol;
            }
        };
        let rowids_before: std::collections::BTreeSet<String> = read_sub("SELECT __corro_rowid FROM query".to_string()).into_iter().filter_map(|r| r.into_iter().next()).collect();
        let handles_before = klukai_types::spawn::PENDING_HANDLES.load(std::sync::atomic::Ordering::SeqCst);
        let (st, _b) = klukai_agent::api::public::api_v1_transactions(
            axum::Extension(agent.clone()),
            axum::extract::Query(klukai_agent::api::public::TimeoutParams { timeout: None }),
            axum::extract::Json(vec![
                Statement::Simple("UPDATE p SET v = 'post' WHERE id = 5".into()),
                Statement::Simple("INSERT INTO p (id,v,g) VALUES (77,'new',NULL)".into()),
                Statement::Simple("INSERT INTO c (id,p_id,w) VALUES (77,77,'new')".into()),
            ]),
        )
        .await;
        if !st.is_success() {
            machinery_error("post-restart write failed");
        }
        // the write's candidates reach the matcher through a counted task: wait for it to finish
        {
            let start = Instant::now();
            while klukai_types::spawn::PENDING_HANDLES.load(std::sync::atomic::Ordering::SeqCst) > handles_before {
                tokio::time::sleep(Duration::from_micros(300)).await;
                if start.elapsed() > Duration::from_secs(20) {
                    machinery_error("C13: the post-restart write's broadcast task did not finish");
                }
            }
        }
        // barrier through the restored matcher
        let id = sub_id.to_string();
        let before = emit_count(&id);
        let mut cand = MatchCandidates::new();
        let mut keys = indexmap::IndexMap::new();
        for i in 0..1000i64 {
            keys.insert(pack_columns(&[SqliteValue::Integer(9_000_000 + i)]).unwrap(), 1i64);
        }
        cand.insert(TableName(qtable.into()), keys);
        handle.changes_tx().send(cand).await.unwrap();
        let start = Instant::now();
        while emit_count(&id) == before {
            tokio::time::sleep(Duration::from_millis(1)).await;
            if start.elapsed() > Duration::from_secs(20) {
                viol.push(("C13:restored-matcher-does-not-process-changes".to_string(), json!({})));
                return viol;
            }
        }
        // the event goes from the matcher through the forwarder to the broadcast channel: wait for it
        // (up to 5 s; its absence after that is the violation below)
        let mut first_new = None;
        let mut new_events: Vec<(String, u64)> = vec![]; // (kind, row id)
        let wait_start = Instant::now();
        while first_new.is_none() && wait_start.elapsed() < Duration::from_secs(5) {
            while let Ok((bytes, meta)) = brx.try_recv() {
                if let klukai_types::api::QueryEventMeta::Change(id) = meta {
                    if first_new.is_none() {
                        first_new = Some(id.0);
                    }
                    if let Ok(QueryEvent::Change(ty, rowid, _cells, _)) = serde_json::from_slice::<QueryEvent>(&bytes) {
                        new_events.push((format!("{ty:?}"), rowid.0));
                    }
                }
            }
            if first_new.is_none() {
                tokio::time::sleep(Duration::from_millis(1)).await;
            }
        }
        // the rest of the batch's events
        tokio::time::sleep(Duration::from_millis(20)).await;
        while let Ok((bytes, meta)) = brx.try_recv() {
            if let klukai_types::api::QueryEventMeta::Change(_) = meta {
                if let Ok(QueryEvent::Change(ty, rowid, _cells, _)) = serde_json::from_slice::<QueryEvent>(&bytes) {
                    new_events.push((format!("{ty:?}"), rowid.0));
                }
            }
        }
        // events of the new life are consistent with the rows the subscription had when it came
        // back: no insert for a row it already had, no update or delete for a row it never had
        {
            let mut known = rowids_before.clone();
            for (kind, rowid) in &new_events {
                let key = format!("i:{rowid}");
                match kind.as_str() {
                    "Insert" => {
                        if !known.insert(key) {
                            viol.push(("C13:insert-event-for-a-row-the-restored-subscription-already-had".to_string(), json!({"rowid": rowid, "events": new_events})));
                            break;
                        }
                    }
                    "Update" => {
                        if !known.contains(&key) {
                            viol.push(("C13:update-event-for-a-row-unknown-to-the-restored-subscription".to_string(), json!({"rowid": rowid, "events": new_events})));
                            break;
                        }
                    }
                    _ => {
                        if !known.remove(&key) {
                            viol.push(("C13:delete-event-for-a-row-unknown-to-the-restored-subscription".to_string(), json!({"rowid": rowid, "events": new_events})));
                            break;
                        }
                    }
                }
            }
        }
        match first_new {
            None => viol.push(("C13:no-event-after-restart".to_string(), json!({}))),
            Some(f) => {
                if f != max_now + 1 {
                    viol.push(("C13:first-event-after-restart-has-wrong-id".to_string(), json!({"got": f, "want": max_now + 1})));
                }
            }
        }
        // the restored subscription keeps following its query: after the first change of the new life
        // the materialised rows equal the query again (a wrongly reloaded row counter or column list
        // shows here), and every row id is still unique
        {
            let want = {
                let conn = agent.pool().read().await.unwrap();
                let mut w = tokio::task::block_in_place(|| dump_query(&conn, qsql));
                w.sort();
                w
            };
            let mut got = read_sub(format!("SELECT {} FROM query", cols.join(",")));
            got.sort();
            if got != want {
                viol.push(("C13:rows-differ-from-query-after-the-first-change-of-the-new-life".to_string(), json!({"materialised": got, "query_result": want})));
            }
            let dup = read_sub("SELECT count(*) - count(DISTINCT __corro_rowid) FROM query".to_string());
            if dup.first().and_then(|r| r.first()).map(|c| c != "i:0").unwrap_or(true) {
                viol.push(("C13:duplicate-row-ids-after-restart".to_string(), json!({"dup": dup})));
            }
        }
        opts.subs_manager.drop_handles().await;
        viol
    });
    rt.shutdown_timeout(Duration::from_secs(5));
    violations.extend(v2);
    let outcome = digest(&(violations.len(), wal_commits));
    Out13 { violations, outcome, wal_commits }
}

fn c13(cli: &Cli) {
    let rep = Report::new("C13", cli.tier, cli.seed);
    sweep_stale_scratch();
    install_gate();
    let tpl = Template::build(0, SCHEMA);
    if let Some(p) = &cli.replay {
        let r = load_replay(p);
        let case: Case13 = serde_json::from_value(r["case"].clone()).unwrap();
        let out = run_case13(&tpl, &case);
        for (k, d) in &out.violations {
            println!("reproduced {k}: {d}");
        }
        std::process::exit(if out.violations.is_empty() { 0 } else { 1 });
    }
    let mut cases: Vec<Case13> = vec![];
    let maxb = cli.tier.pick(2, 4);
    for q in 0..Q13.len() {
        for before in 0..=maxb {
            for after_trip in 0..=2 {
                for mid in [false, true] {
                    cases.push(Case13 { query: q, before, after_trip, trip_mid_batch: mid, wal_commits: None, kill_in_drain: false });
                }
            }
        }
    }
    let deadline = Instant::now() + Duration::from_secs(cli.tier.pick(300, 1500));
    let mut execs = 0u64;
    let mut capped = None;
    let mut run = |case: &Case13, rep: &Report, execs: &mut u64| -> usize {
        let out = run_case13(&tpl, case);
        *execs += 1;
        if !out.violations.is_empty() {
            let again = run_case13(&tpl, case);
            let k1: Vec<&String> = out.violations.iter().map(|v| &v.0).collect();
            let k2: Vec<&String> = again.violations.iter().map(|v| &v.0).collect();
            if k1 != k2 {
                machinery_error(&format!("non-deterministic case {case:?}: {k1:?} vs {k2:?}"));
            }
        }
        for (k, d) in out.violations {
            rep.violation(&k, json!({"case": case, "d": d}));
        }
        rep.outcome(out.outcome);
        rep.nontrivial(digest(&format!("{case:?}")));
        if *execs % 17 == 3 {
            rep.sample(json!({"case": case}));
        }
        out.wal_commits
    };
    // abrupt stops: every commit boundary of the subscription database's log
    'ab: for q in 0..Q13.len() {
        for before in 0..=maxb {
            let probe = Case13 { query: q, before, after_trip: 0, trip_mid_batch: false, wal_commits: Some(usize::MAX), kill_in_drain: false };
            let n = run(&probe, &rep, &mut execs);
            for cut in 0..n {
                if Instant::now() > deadline {
                    capped = Some("wall-clock cap during abrupt-stop enumeration".to_string());
                    break 'ab;
                }
                let c = Case13 { query: q, before, after_trip: 0, trip_mid_batch: false, wal_commits: Some(cut), kill_in_drain: false };
                run(&c, &rep, &mut execs);
            }
        }
    }
    // abrupt stop inside the draining window of a graceful shutdown (trip, 0..2 late transactions,
    // then the process dies while the matcher still drains): the image as it is, and cut after each
    // of its last commit frames
    'dr: for q in 0..Q13.len() {
        for before in 0..=maxb.min(2) {
            for after_trip in 0..=2 {
                let probe = Case13 { query: q, before, after_trip, trip_mid_batch: false, wal_commits: Some(usize::MAX), kill_in_drain: true };
                let n = run(&probe, &rep, &mut execs);
                for cut in n.saturating_sub(2)..n {
                    if Instant::now() > deadline {
                        capped = Some("wall-clock cap during kill-in-drain enumeration".to_string());
                        break 'dr;
                    }
                    let c = Case13 { query: q, before, after_trip, trip_mid_batch: false, wal_commits: Some(cut), kill_in_drain: true };
                    run(&c, &rep, &mut execs);
                }
            }
        }
    }
    for case in &cases {
        if Instant::now() > deadline {
            capped = Some(format!("wall-clock cap after {execs} executions"));
            break;
        }
        run(case, &rep, &mut execs);
    }
    rep.set("states", execs);
    rep.set("transitions", execs);
    rep.set("evaluations", execs);
    rep.set("traces_validated_against_impl", execs);
    rep.set("exhaustive", capped.is_none());
    if let Some(c) = capped {
        rep.set("cap_hit", c);
    }
    rep.set("bounds", json!({"queries": Q13.iter().map(|q| q.1).collect::<Vec<_>>(), "batches_before_stop": format!("0..={maxb}"), "transactions_after_trip": "0..=2",
        "trip_while_batch_in_progress": [false, true], "abrupt": "every commit boundary of sub.sqlite's WAL, plus the uncut files"}));
    rep.assume("restart goes through the real klukai_agent::agent::setup() (which restores or cleans up subscriptions); the first life runs on the harness's socket-free node");
    rep.assume("an abrupt stop pairs a prefix of the subscription's log with the node database as it was at the end of the run (the node database is ahead of the subscription, as in a real crash)");
    rep.require_nontrivial(10, "every case (a distinct stop point / shutdown shape) is non-trivial");
    rep.finish();
}

fn main() {
    let cli = parse_cli();
    match cli.props.first().map(|s| s.as_str()) {
        Some("C11") => c11(&cli),
        Some("C14") => c14(&cli),
        Some("C13") => c13(&cli),
        _ => machinery_error("subs: --prop C11|C13|C14"),
    }
}

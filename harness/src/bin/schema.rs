//! E8 `schema` (C15): schema changes are additive, atomic, idempotent and survive restart.
//! Every sequence of schema submissions over an alphabet of allowed and forbidden edits on a
//! database holding rows, through the real `api_v1_db_schema`; after every submission: metamorphic
//! invariants (only-grows, rejected => nothing changed anywhere, accepted => idempotent) and a
//! restart through the real `setup()`.

use axum::Extension;
use klukai_agent::api::public::api_v1_db_schema;
use klukai_types::api::Statement;
use klukai_types::schema::Schema;
use serde_json::{Value, json};
use std::collections::BTreeMap;
use std::time::{Duration, Instant};
use vh::vcore::*;
use vh::vnode::*;

const T_BASE: &str = "CREATE TABLE t (id INTEGER PRIMARY KEY NOT NULL, a TEXT NOT NULL DEFAULT '', b INTEGER)";
const T_IDX: &str = "CREATE INDEX t_a ON t (a)";
const U_BASE: &str = "CREATE TABLE u (k1 INTEGER NOT NULL, k2 TEXT NOT NULL, x TEXT, PRIMARY KEY (k1, k2))";

/// (name, statements, always_forbidden)
fn alphabet() -> Vec<(&'static str, Vec<String>, bool)> {
    let s = |v: &[&str]| v.iter().map(|x| x.to_string()).collect::<Vec<_>>();
    vec![
        ("new_table", s(&["CREATE TABLE v (id INTEGER PRIMARY KEY NOT NULL, n TEXT)"]), false),
        ("add_nullable_column", s(&["CREATE TABLE t (id INTEGER PRIMARY KEY NOT NULL, a TEXT NOT NULL DEFAULT '', b INTEGER, c TEXT)", T_IDX]), false),
        ("add_notnull_default_column", s(&["CREATE TABLE t (id INTEGER PRIMARY KEY NOT NULL, a TEXT NOT NULL DEFAULT '', b INTEGER, d INTEGER NOT NULL DEFAULT 7)", T_IDX]), false),
        ("add_both_columns", s(&["CREATE TABLE t (id INTEGER PRIMARY KEY NOT NULL, a TEXT NOT NULL DEFAULT '', b INTEGER, c TEXT, d INTEGER NOT NULL DEFAULT 7)", T_IDX]), false),
        ("add_notnull_without_default", s(&["CREATE TABLE t (id INTEGER PRIMARY KEY NOT NULL, a TEXT NOT NULL DEFAULT '', b INTEGER, e INTEGER NOT NULL)", T_IDX]), true),
        ("add_index", s(&[T_BASE, T_IDX, "CREATE INDEX t_b ON t (b)"]), false),
        ("change_index", s(&[T_BASE, "CREATE INDEX t_a ON t (a, b)"]), false),
        ("drop_index", s(&[T_BASE]), false),
        ("resubmit_base", s(&[T_BASE, T_IDX]), false),
        ("explicit_drop_table", s(&["DROP TABLE t"]), true),
        ("drop_column", s(&["CREATE TABLE t (id INTEGER PRIMARY KEY NOT NULL, a TEXT NOT NULL DEFAULT '')", T_IDX]), true),
        ("change_type", s(&["CREATE TABLE t (id INTEGER PRIMARY KEY NOT NULL, a TEXT NOT NULL DEFAULT '', b TEXT)", T_IDX]), true),
        ("change_default", s(&["CREATE TABLE t (id INTEGER PRIMARY KEY NOT NULL, a TEXT NOT NULL DEFAULT 'zz', b INTEGER)", T_IDX]), true),
        ("change_nullability", s(&["CREATE TABLE t (id INTEGER PRIMARY KEY NOT NULL, a TEXT NOT NULL DEFAULT '', b INTEGER NOT NULL DEFAULT 0)", T_IDX]), true),
        ("change_primary_key", s(&["CREATE TABLE t (id INTEGER NOT NULL, a TEXT NOT NULL DEFAULT '', b INTEGER, PRIMARY KEY (id, a))", T_IDX]), true),
        ("add_primary_key_u", s(&["CREATE TABLE u (k1 INTEGER NOT NULL, k2 TEXT NOT NULL, x TEXT NOT NULL DEFAULT '', PRIMARY KEY (k1, k2, x))"]), true),
        // a *new* column that joins the key through a table-level PRIMARY KEY (the column-level spelling is refused by SQLite itself)
        ("add_new_key_column_u_default", s(&["CREATE TABLE u (k1 INTEGER NOT NULL, k2 TEXT NOT NULL, x TEXT, k3 INTEGER NOT NULL DEFAULT 0, PRIMARY KEY (k1, k2, k3))"]), true),
        ("add_new_key_column_u_nullable", s(&["CREATE TABLE u (k1 INTEGER NOT NULL, k2 TEXT NOT NULL, x TEXT, k4 TEXT, PRIMARY KEY (k1, k2, k4))"]), true),
        ("add_new_key_column_t", s(&["CREATE TABLE t (id INTEGER NOT NULL, a TEXT NOT NULL DEFAULT '', b INTEGER, k5 INTEGER NOT NULL DEFAULT 1, PRIMARY KEY (id, k5))", T_IDX]), true),
        ("unique_index", s(&[T_BASE, T_IDX, "CREATE UNIQUE INDEX t_u ON t (b)"]), true),
        ("foreign_key", s(&["CREATE TABLE w (id INTEGER PRIMARY KEY NOT NULL, t_id INTEGER REFERENCES t (id))"]), true),
        ("syntax_error_at_1", s(&["CREATE TABL x1 (id INTEGER PRIMARY KEY NOT NULL)", "CREATE TABLE x2 (id INTEGER PRIMARY KEY NOT NULL)", "CREATE TABLE x3 (id INTEGER PRIMARY KEY NOT NULL)"]), true),
        ("syntax_error_at_2", s(&["CREATE TABLE x1 (id INTEGER PRIMARY KEY NOT NULL)", "CREATE TABL x2 (id INTEGER PRIMARY KEY NOT NULL)", "CREATE TABLE x3 (id INTEGER PRIMARY KEY NOT NULL)"]), true),
        ("syntax_error_at_3", s(&["CREATE TABLE x1 (id INTEGER PRIMARY KEY NOT NULL)", "CREATE TABLE x2 (id INTEGER PRIMARY KEY NOT NULL)", "CREATE TABL x3 (id INTEGER PRIMARY KEY NOT NULL)"]), true),
        ("valid_then_invalid_pair", s(&["CREATE TABLE y (id INTEGER PRIMARY KEY NOT NULL, n TEXT)", "CREATE TABLE t (id INTEGER PRIMARY KEY NOT NULL, a TEXT NOT NULL DEFAULT '')"]), true),
        ("invalid_then_valid_pair", s(&["CREATE TABLE t (id INTEGER PRIMARY KEY NOT NULL, b INTEGER)", "CREATE TABLE z (id INTEGER PRIMARY KEY NOT NULL, n TEXT)"]), true),
    ]
}

#[derive(Debug, Clone, PartialEq)]
struct Snapshot {
    user_schema: Vec<Vec<String>>,
    corro_schema: Vec<Vec<String>>,
    /// table -> (columns info, rows)
    tables: BTreeMap<String, (Vec<Vec<String>>, Vec<Vec<String>>)>,
    changes: Vec<Vec<String>>,
    agent_schema: Vec<String>,
    db_version: Vec<Vec<String>>,
}

fn canon_schema(s: &Schema) -> Vec<String> {
    let mut out: Vec<String> = s
        .tables
        .iter()
        .map(|(name, t)| {
            let mut idx: Vec<String> = t.indexes.iter().map(|(n, i)| format!("{n}:{:?}:{:?}:{}", i.columns, i.where_clause, i.unique)).collect();
            idx.sort();
            let cols: Vec<String> = t
                .columns
                .iter()
                .map(|(n, c)| format!("{n}:{:?}:{}:{:?}:{}", c.sql_type, c.nullable, c.default_value, c.primary_key))
                .collect();
            format!("{name} pk={:?} cols={cols:?} idx={idx:?}", t.pk.iter().collect::<Vec<_>>())
        })
        .collect();
    out.sort();
    out
}

async fn snapshot(nd: &Node) -> Snapshot {
    let agent_schema = canon_schema(&nd.agent.schema().read());
    let (user_schema, corro_schema, tables, changes, db_version) = nd
        .read(|c| {
            let user_schema = dump_query(
                c,
                "SELECT type, name, tbl_name, sql FROM sqlite_schema WHERE name NOT LIKE '\\_\\_corro%' ESCAPE '\\' AND name NOT LIKE 'crsql%' AND name NOT LIKE '%\\_\\_crsql%' ESCAPE '\\' AND name NOT LIKE 'sqlite\\_%' ESCAPE '\\' AND name NOT LIKE 'corro\\_%' ESCAPE '\\' ORDER BY name",
            );
            let corro_schema = dump_query(c, "SELECT tbl_name, type, name, sql FROM __corro_schema ORDER BY 1,2,3");
            let names: Vec<String> = user_schema.iter().filter(|r| r[0] == "t:table").map(|r| r[1].trim_start_matches("t:").to_string()).collect();
            let mut tables = BTreeMap::new();
            for n in names {
                let info = dump_query(c, &format!("SELECT name, type, \"notnull\", dflt_value, pk FROM pragma_table_info('{n}') ORDER BY cid"));
                let rows = dump_query(c, &format!("SELECT * FROM \"{n}\" ORDER BY 1,2"));
                tables.insert(n, (info, rows));
            }
            let changes = dump_query(c, "SELECT \"table\", hex(pk), cid, val, col_version, db_version, seq, hex(site_id), cl FROM crsql_changes ORDER BY 1,2,3");
            let dbv = dump_query(c, "SELECT crsql_db_version()");
            (user_schema, corro_schema, tables, changes, dbv)
        })
        .await;
    Snapshot { user_schema, corro_schema, tables, changes, agent_schema, db_version }
}

/// only-grows: every table, column (with its definition), row and value of `a` is still in `b`
fn only_grows(a: &Snapshot, b: &Snapshot) -> Option<String> {
    for (name, (info, rows)) in &a.tables {
        let Some((info2, rows2)) = b.tables.get(name) else {
            return Some(format!("table {name} disappeared"));
        };
        for (i, col) in info.iter().enumerate() {
            match info2.get(i) {
                Some(c2) if c2 == col => {}
                other => return Some(format!("column {col:?} of {name} changed to {other:?}")),
            }
        }
        if rows.len() != rows2.len() {
            return Some(format!("table {name}: {} rows became {}", rows.len(), rows2.len()));
        }
        for (r, r2) in rows.iter().zip(rows2.iter()) {
            if r2.len() < r.len() || r[..] != r2[..r.len()] {
                return Some(format!("row {r:?} of {name} became {r2:?}"));
            }
        }
    }
    None
}

struct SeqOut {
    violations: Vec<(String, Value)>,
    accepted: usize,
    rejected: usize,
    outcome: u64,
}

fn restart_schema(db: &std::path::Path) -> Result<Vec<String>, String> {
    let rt = new_runtime(2);
    let dbp = db.to_path_buf();
    let r = rt.block_on(async move {
        let conf = klukai_types::config::Config::builder()
            .db_path(dbp.display().to_string())
            .gossip_addr("127.0.0.1:0".parse().unwrap())
            .api_addr("127.0.0.1:0".parse().unwrap())
            .build()
            .unwrap();
        let (tripwire, worker, _tx) = klukai_types::tripwire::Tripwire::new_simple();
        tokio::spawn(worker);
        match klukai_agent::agent::setup(conf, tripwire).await {
            Ok((agent, _opts)) => Ok(canon_schema(&agent.schema().read())),
            Err(e) => Err(e.to_string()),
        }
    });
    rt.shutdown_timeout(Duration::from_secs(5));
    r
}

fn run_seq(tpl: &Template, seq: &[usize], do_restart: bool) -> SeqOut {
    let alpha = alphabet();
    let s = Scratch::new("schema");
    let db = tpl.instantiate(&s.path().join("n"));
    let mut node = RtNode::open(&db, NodeOpts::default());
    let seq = seq.to_vec();
    let mut out = node.run(async |nd| {
        let mut violations: Vec<(String, Value)> = vec![];
        let mut accepted = 0;
        let mut rejected = 0;
        for (k, si) in seq.iter().enumerate() {
            let (name, stmts, forbidden) = &alpha[*si];
            let before = snapshot(nd).await;
            let (status, body) = api_v1_db_schema(Extension(nd.agent.clone()), axum::Json(stmts.clone())).await;
            let after = snapshot(nd).await;
            let tag = format!("submission {k} '{name}'");
            let mut bad = |key: &str, d: Value| violations.push((format!("C15:{key}"), json!({"at": tag, "d": d})));
            if status.is_success() {
                accepted += 1;
                if *forbidden {
                    bad(&format!("forbidden-edit-accepted:{name}"), json!({"status": status.as_u16()}));
                }
                if let Some(m) = only_grows(&before, &after) {
                    bad("accepted-change-is-not-additive", json!({"msg": m}));
                }
                if before.changes != after.changes || before.db_version != after.db_version {
                    bad("schema-change-altered-replicated-data-or-consumed-a-version", json!({"db_version": [before.db_version, after.db_version]}));
                }
                // idempotence: the same submission again changes nothing
                let (status2, _b2) = api_v1_db_schema(Extension(nd.agent.clone()), axum::Json(stmts.clone())).await;
                let again = snapshot(nd).await;
                if !status2.is_success() {
                    bad("resubmitting-an-applied-schema-fails", json!({"status": status2.as_u16()}));
                }
                if again != after {
                    bad("resubmitting-an-applied-schema-changes-something", json!({"diff": diff(&after, &again)}));
                }
            } else {
                rejected += 1;
                if after != before {
                    bad("rejected-change-left-traces", json!({"status": status.as_u16(), "error": format!("{:?}", body.0.results), "diff": diff(&before, &after)}));
                }
                if k == 0 && !*forbidden {
                    bad(&format!("additive-edit-rejected-on-base-schema:{name}"), json!({"error": format!("{:?}", body.0.results)}));
                }
            }
        }
        let last = snapshot(nd).await;
        (SeqOut { violations, accepted, rejected, outcome: 0 }, last)
    });
    node.crash();
    let (mut so, last) = (out.0, out.1);
    if do_restart {
        match restart_schema(&db) {
            Ok(s2) => {
                if s2 != last.agent_schema {
                    so.violations.push(("C15:schema-after-restart-differs".into(), json!({"before": last.agent_schema, "after": s2})));
                }
            }
            Err(e) => so.violations.push(("C15:restart-failed".into(), json!({"err": e}))),
        }
    }
    so.outcome = digest(&(so.accepted, so.rejected, last.user_schema.len()));
    out.0 = SeqOut { violations: vec![], accepted: 0, rejected: 0, outcome: 0 };
    so
}

fn diff(a: &Snapshot, b: &Snapshot) -> Vec<&'static str> {
    let mut d = vec![];
    if a.user_schema != b.user_schema {
        d.push("sqlite_schema");
    }
    if a.corro_schema != b.corro_schema {
        d.push("__corro_schema");
    }
    if a.tables != b.tables {
        d.push("table contents / columns");
    }
    if a.changes != b.changes {
        d.push("crsql_changes");
    }
    if a.agent_schema != b.agent_schema {
        d.push("agent.schema()");
    }
    if a.db_version != b.db_version {
        d.push("db_version");
    }
    d
}

fn main() {
    let cli = parse_cli();
    let rep = Report::new("C15", cli.tier, cli.seed);
    sweep_stale_scratch();
    // template: base schema with rows
    let tpl = {
        let t0 = Template::build(0, &format!("{T_BASE}; {T_IDX}; {U_BASE};"));
        let s = Scratch::new("schtpl");
        let p = t0.instantiate(&s.path().join("n"));
        let mut n = RtNode::open(&p, NodeOpts::default());
        n.run(async |nd| {
            let (st, _b, _bc) = nd
                .write(
                    vec![
                        Statement::Simple("INSERT INTO t (id,a,b) VALUES (1,'x',10),(2,'y',NULL)".into()),
                        Statement::Simple("INSERT INTO u (k1,k2,x) VALUES (1,'m','ux')".into()),
                    ],
                    None,
                )
                .await;
            assert_eq!(st, 200);
            nd.checkpoint_truncate().await;
        });
        n.crash();
        Template { idx: 0, db: std::sync::Arc::new(std::fs::read(&p).unwrap()) }
    };
    if let Some(p) = &cli.replay {
        let r = load_replay(p);
        let seq: Vec<usize> = serde_json::from_value(r["seq"].clone()).unwrap();
        let out = run_seq(&tpl, &seq, true);
        for (k, d) in &out.violations {
            println!("reproduced {k}: {d}");
        }
        std::process::exit(if out.violations.is_empty() { 0 } else { 1 });
    }
    let n = alphabet().len();
    let maxlen = cli.tier.pick(2, 3);
    let mut seqs: Vec<Vec<usize>> = vec![];
    let mut cur: Vec<Vec<usize>> = vec![vec![]];
    for _ in 0..maxlen {
        let mut next = vec![];
        for s in &cur {
            for a in 0..n {
                let mut t = s.clone();
                t.push(a);
                next.push(t);
            }
        }
        seqs.extend(next.iter().cloned());
        cur = next;
    }
    // a sequence whose first submission is rejected explores nothing new beyond its suffix;
    // keep all length-1 sequences, and longer ones only when the first submission is an allowed edit
    let alpha = alphabet();
    let seqs: Vec<Vec<usize>> = seqs.into_iter().filter(|s| s.len() == 1 || !alpha[s[0]].2).collect();
    let deadline = Instant::now() + Duration::from_secs(cli.tier.pick(300, 1500));
    let mut execs = 0u64;
    let mut steps = 0u64;
    let mut capped = None;
    for seq in &seqs {
        if Instant::now() > deadline {
            capped = Some(format!("wall-clock cap after {execs} of {} sequences", seqs.len()));
            break;
        }
        let out = run_seq(&tpl, seq, true);
        execs += 1;
        steps += seq.len() as u64;
        if !out.violations.is_empty() {
            let again = run_seq(&tpl, seq, true);
            let k1: Vec<&String> = out.violations.iter().map(|v| &v.0).collect();
            let k2: Vec<&String> = again.violations.iter().map(|v| &v.0).collect();
            if k1 != k2 {
                machinery_error(&format!("non-deterministic sequence {seq:?}: {k1:?} vs {k2:?}"));
            }
        }
        for (k, d) in out.violations {
            rep.violation(&k, json!({"seq": seq, "names": seq.iter().map(|i| alpha[*i].0).collect::<Vec<_>>(), "d": d}));
        }
        rep.outcome(out.outcome);
        if out.accepted > 0 && out.rejected > 0 {
            rep.nontrivial(digest(&format!("{seq:?}")));
        }
        if execs % 37 == 5 {
            rep.sample(json!({"submissions": seq.iter().map(|i| alpha[*i].0).collect::<Vec<_>>(), "accepted": out.accepted, "rejected": out.rejected}));
        }
    }
    rep.set("states", execs);
    rep.set("transitions", steps);
    rep.set("evaluations", execs);
    rep.set("traces_validated_against_impl", execs);
    rep.set("exhaustive", capped.is_none());
    if let Some(c) = capped {
        rep.set("cap_hit", c);
    }
    rep.set("bounds", json!({"submissions": alpha.iter().map(|a| a.0).collect::<Vec<_>>(), "sequence_len_max": maxlen, "restart_after_every_sequence": true}));
    rep.assume("the oracle is metamorphic: accepted => only-grows + idempotent + no replicated-data change; rejected => sqlite_schema, __corro_schema, table contents, crsql_changes and agent.schema() identical to before; always-forbidden edits must be rejected in every state; additive edits must be accepted on the base schema");
    rep.require_nontrivial(10, "a sequence is non-trivial when it contains both an accepted and a rejected submission");
    rep.finish();
}

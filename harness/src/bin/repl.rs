//! E1 `repl`: explicit-state exploration of 2-3 real nodes (C01, C03, C05, C06; C02 as invariant).
//! A state is (write script, dissemination history); successors are produced by re-executing
//! history+event on fresh real nodes. See DESIGN.md §4.

use klukai_types::actor::ActorId;
use klukai_types::api::Statement;
use klukai_types::base::{CrsqlDbVersion, CrsqlSeq};
use klukai_types::broadcast::{ChangeV1, Changeset};
use klukai_types::change::Change;
use klukai_types::sync::SyncNeedV1;
use serde::{Deserialize, Serialize};
use serde_json::{Value, json};
use std::collections::{BTreeMap, BTreeSet};
use std::time::{Duration, Instant};
use vh::explore::*;
use vh::model::*;
use vh::vcore::*;
use vh::vnode::*;

const SCHEMA: &str = "CREATE TABLE t (id INTEGER PRIMARY KEY NOT NULL, a TEXT NOT NULL DEFAULT '', b TEXT NOT NULL DEFAULT '');";

// ------------------------------------------------------------------------------------------
// scripts
// ------------------------------------------------------------------------------------------

#[derive(Clone, Copy, Serialize, Deserialize, Debug, PartialEq, Eq, Hash)]
enum Tx {
    InsK1,
    UpdA,
    UpdB,
    DelK1,
    InsK1K2,
}

#[derive(Clone, Serialize, Deserialize, Debug, PartialEq, Eq, Hash)]
enum Step {
    /// local transaction on writer node
    W(usize, Tx),
    /// complete delivery of ledger version `x` to node (before later writes: causal chains)
    G(usize, usize),
}

type Script = Vec<Step>;

fn tx_sql(w: usize, k: usize, tx: Tx) -> Vec<Statement> {
    let s = |q: String| Statement::Simple(q);
    match tx {
        Tx::InsK1 => vec![s(format!(
            "INSERT INTO t (id,a,b) VALUES (1,'w{w}a{k}','w{w}b{k}') ON CONFLICT (id) DO UPDATE SET a=excluded.a, b=excluded.b"
        ))],
        Tx::UpdA => vec![s(format!("UPDATE t SET a='w{w}A{k}' WHERE id=1"))],
        Tx::UpdB => vec![s(format!("UPDATE t SET b='w{w}B{k}' WHERE id=1"))],
        Tx::DelK1 => vec![s("DELETE FROM t WHERE id=1".to_string())],
        Tx::InsK1K2 => vec![
            s(format!(
                "INSERT INTO t (id,a,b) VALUES (1,'w{w}a{k}','w{w}b{k}') ON CONFLICT (id) DO UPDATE SET a=excluded.a, b=excluded.b"
            )),
            s(format!(
                "INSERT INTO t (id,a,b) VALUES (2,'w{w}c{k}','w{w}d{k}') ON CONFLICT (id) DO UPDATE SET a=excluded.a, b=excluded.b"
            )),
        ],
    }
}

/// One acknowledged local transaction.
#[derive(Clone, Debug)]
struct LVer {
    origin: usize,
    actor: ActorId,
    version: u64,
    changes: Vec<Change>,
    last_seq: u64,
    ts: klukai_types::broadcast::Timestamp,
}

impl LVer {
    fn chunk(&self, i: u64, j: u64) -> ChangeV1 {
        full(
            self.actor,
            self.version,
            self.changes.iter().filter(|c| c.seq.0 >= i && c.seq.0 <= j).cloned().collect(),
            i..=j,
            self.last_seq,
            self.ts,
        )
    }
}

// ------------------------------------------------------------------------------------------
// events
// ------------------------------------------------------------------------------------------

#[derive(Clone, Copy, Serialize, Deserialize, Debug, PartialEq, Eq, Hash)]
enum Loss {
    None,
    /// drop answer k
    Drop(usize),
    /// keep only the first k answers (a session cut short)
    Prefix(usize),
}

#[derive(Clone, Serialize, Deserialize, Debug, PartialEq, Eq, Hash)]
enum Ev {
    /// deliver original rows of ledger version x, seqs i..=j, to node n
    D { n: usize, x: usize, i: u64, j: u64 },
    /// two original chunks in one batch
    B { n: usize, a: (usize, u64, u64), b: (usize, u64, u64) },
    /// one sync session n <- m
    S { n: usize, m: usize, loss: Loss, batch: bool },
    /// apply one pending fully-buffered version at n
    A { n: usize },
    /// run one pending clear-buffered-meta request at n
    K { n: usize },
    /// crash n (memory lost) and restart it on its files
    X { n: usize },
    /// local transaction at n during dissemination (C06): acknowledged writes must survive
    W { n: usize, tx: LTx },
}

#[derive(Clone, Copy, Serialize, Deserialize, Debug, PartialEq, Eq, Hash)]
enum LTx {
    /// upsert of the node's own key
    Ins,
    /// two statements, the second violates NOT NULL: nothing may remain
    Fail,
}

// ------------------------------------------------------------------------------------------
// execution
// ------------------------------------------------------------------------------------------

#[derive(Clone)]
struct Cfg {
    nodes: usize,
    /// which oracles report (property ids)
    props: BTreeSet<&'static str>,
    closure: bool,
    allow_crash: bool,
    redeliver_held: bool,
    batches: bool,
    lossy: bool,
    sync_events: bool,
    unbatched_sync: bool,
    /// nodes that receive D/B events (others only take part in syncs)
    receivers: Vec<usize>,
    server_oracle: bool,
    twin_off: bool,
    /// C06: local writes during dissemination and crash forks (WAL prefixes restarted through the
    /// real start_with_config) after every step
    crash_forks: bool,
    torn_cuts: bool,
    max_local_writes: usize,
    /// index of the script family (keeps per-state memo tables of parallel families apart)
    family: u64,
}

struct World {
    tpls: Vec<Template>,
    tpl_ref: Template,
}

impl World {
    fn new() -> World {
        World {
            tpls: (0..3).map(|i| Template::build(i, SCHEMA)).collect(),
            tpl_ref: Template::build(7, SCHEMA),
        }
    }
}

struct Exec<'a> {
    w: &'a World,
    _scratch: Scratch,
    nodes: Vec<RtNode>,
    models: Vec<NodeModel>,
    ledger: Vec<LVer>,
    /// rows delivered to node n for ledger version x by D/B events only: (n,x) -> seqs
    viol: Vec<(String, Value)>,
    /// (n, x) -> had a partial delivery coming from a sync answer (twin not attempted then)
    tainted: BTreeSet<(usize, usize)>,
    /// (n, x) applied by the last `A` event
    last_applied: Option<(usize, usize)>,
}

static TWIN: [std::sync::atomic::AtomicU64; 2] = [const { std::sync::atomic::AtomicU64::new(0) }; 2];
static I4: [std::sync::atomic::AtomicU64; 5] = [const { std::sync::atomic::AtomicU64::new(0) }; 5];
fn i4(i: usize) {
    I4[i].fetch_add(1, std::sync::atomic::Ordering::Relaxed);
}

fn project(c: &Change) -> (String, Vec<u8>, String, String, i64, i64, [u8; 16], u64, u64) {
    (
        c.table.to_string(),
        c.pk.clone(),
        c.cid.to_string(),
        format!("{:?}", c.val),
        c.col_version,
        c.cl,
        c.site_id,
        c.db_version.0,
        c.seq.0,
    )
}

impl<'a> Exec<'a> {
    fn start(w: &'a World, cfg: &Cfg, script: &Script) -> Exec<'a> {
        let scratch = Scratch::new("e1");
        let mut nodes = vec![];
        for i in 0..cfg.nodes {
            let p = w.tpls[i].instantiate(&scratch.path().join(format!("n{i}")));
            nodes.push(RtNode::open(&p, NodeOpts { no_autocheckpoint: cfg.crash_forks, ..NodeOpts::default() }));
        }
        let mut ex = Exec {
            w,
            _scratch: scratch,
            nodes,
            models: vec![NodeModel::default(); cfg.nodes],
            ledger: vec![],
            viol: vec![],
            tainted: BTreeSet::new(),
            last_applied: None,
        };
        let mut occ = 0;
        for st in script {
            match st {
                Step::W(wr, tx) => {
                    occ += 1;
                    let stmts = tx_sql(*wr, occ, *tx);
                    if !ex.local_write(*wr, stmts) {
                        machinery_error("script write failed");
                    }
                }
                Step::G(n, x) => {
                    if *x < ex.ledger.len() && ex.ledger[*x].origin != *n {
                        let l = ex.ledger[*x].clone();
                        ex.deliver(*n, vec![l.chunk(0, l.last_seq)]);
                        // a complete delivery may leave a pending clear; run it so scripts start clean
                        while ex.nodes[*n].run(async |nd| nd.clear_one().await).is_some() {}
                    }
                }
            }
        }
        ex
    }

    /// A local transaction through the real API handler; an acknowledged version goes to the ledger.
    fn local_write(&mut self, wr: usize, stmts: Vec<Statement>) -> bool {
        let (status, body, bc) = self.nodes[wr].run(async |n| n.write(stmts, None).await);
        if status != 200 {
            return false;
        }
        if let Some(v) = body.version {
            let actor = self.nodes[wr].node().actor_id();
            let mut changes = vec![];
            let mut last_seq = 0;
            let mut ts = None;
            for c in &bc {
                if let Changeset::Full { changes: ch, last_seq: l, ts: t, version, .. } = &c.changeset {
                    assert_eq!(version.0, v);
                    changes.extend(ch.iter().cloned());
                    last_seq = l.0;
                    ts = Some(*t);
                }
            }
            self.models[wr].on_local(actor, v);
            self.ledger.push(LVer { origin: wr, actor, version: v, changes, last_seq, ts: ts.unwrap() });
        }
        true
    }

    fn deliver(&mut self, n: usize, batch: Vec<ChangeV1>) -> bool {
        let own = self.nodes[n].node().actor_id();
        let b2 = batch.clone();
        match self.nodes[n].run(async |nd| nd.deliver(b2).await) {
            Ok(()) => {
                self.models[n].on_batch(own, &batch);
                true
            }
            Err(e) => {
                self.viol.push(("ALL:process_multiple_changes-error".into(), json!({"node": n, "err": e})));
                false
            }
        }
    }

    /// what a lossless session n <- m would transfer right now (read-only)
    fn session_answers(&mut self, n: usize, m: usize) -> Vec<ChangeV1> {
        let ours = self.nodes[n].run(async |nd| nd.sync_state().await);
        let theirs = self.nodes[m].run(async |nd| nd.sync_state().await);
        let needs = ours.compute_available_needs(&theirs);
        let mut req: Vec<(ActorId, Vec<SyncNeedV1>)> = needs.into_iter().collect();
        req.sort_by_key(|r| r.0);
        if req.is_empty() {
            return vec![];
        }
        match self.nodes[m].run(async |nd| nd.serve(req).await) {
            Ok(a) => a,
            Err(e) => {
                self.viol.push(("C05:process_sync-error".into(), json!({"server": m, "err": e})));
                vec![]
            }
        }
    }

    fn apply_event(&mut self, ev: &Ev) {
        match ev {
            Ev::D { n, x, i, j } => {
                let c = self.ledger[*x].chunk(*i, *j);
                self.deliver(*n, vec![c]);
            }
            Ev::B { n, a, b } => {
                let ca = self.ledger[a.0].chunk(a.1, a.2);
                let cb = self.ledger[b.0].chunk(b.1, b.2);
                self.deliver(*n, vec![ca, cb]);
            }
            Ev::S { n, m, loss, batch } => {
                let mut answers = self.session_answers(*n, *m);
                match loss {
                    Loss::None => {}
                    Loss::Drop(k) => {
                        if *k < answers.len() {
                            answers.remove(*k);
                        }
                    }
                    Loss::Prefix(k) => answers.truncate(*k),
                }
                for a in &answers {
                    if let Changeset::Full { version, seqs, last_seq, .. } = &a.changeset {
                        if !(seqs.start().0 == 0 && seqs.end() == last_seq) {
                            if let Some(x) = self.ledger.iter().position(|l| l.actor == a.actor_id && l.version == version.0) {
                                self.tainted.insert((*n, x));
                            }
                        }
                    }
                }
                if *batch {
                    if !answers.is_empty() {
                        self.deliver(*n, answers);
                    }
                } else {
                    for a in answers {
                        self.deliver(*n, vec![a]);
                    }
                }
            }
            Ev::A { n } => {
                let r = self.nodes[*n].run(async |nd| nd.apply_one().await);
                self.last_applied = None;
                if let Some((a, v, Ok(_))) = r {
                    let was = self.models[*n].actors.get(&a).map(|m| m.held.contains(&v.0)).unwrap_or(false);
                    self.models[*n].on_apply(a, v.0);
                    let now = self.models[*n].actors.get(&a).map(|m| m.held.contains(&v.0)).unwrap_or(false);
                    if !was && now {
                        if let Some(x) = self.ledger.iter().position(|l| l.actor == a && l.version == v.0) {
                            self.last_applied = Some((*n, x));
                        }
                    }
                }
            }
            Ev::K { n } => {
                self.nodes[*n].run(async |nd| nd.clear_one().await);
            }
            Ev::X { n } => {
                self.nodes[*n].restart();
            }
            Ev::W { n, tx } => {
                let occ = self.ledger.len() + 100;
                let key = 10 + *n;
                let s = |q: String| Statement::Simple(q);
                let stmts = match tx {
                    LTx::Ins => vec![s(format!(
                        "INSERT INTO t (id,a,b) VALUES ({key},'l{occ}a','l{occ}b') ON CONFLICT (id) DO UPDATE SET a=excluded.a, b=excluded.b"
                    ))],
                    LTx::Fail => vec![
                        s(format!("INSERT INTO t (id,a,b) VALUES ({},'f{occ}','f{occ}')", key + 10)),
                        s("INSERT INTO t (id,a,b) VALUES (1, NULL, 'x')".to_string()),
                    ],
                };
                let before = self.ledger.len();
                let ok = self.local_write(*n, stmts);
                match tx {
                    LTx::Ins if !ok => self.viol.push(("ALL:local-write-failed".into(), json!({"node": n}))),
                    LTx::Fail if ok || self.ledger.len() != before => {
                        self.viol.push(("C06:failed-transaction-acknowledged".into(), json!({"node": n})))
                    }
                    _ => {}
                }
            }
        }
    }

    fn node_digests(&mut self, n: usize) -> (u64, u64) {
        self.nodes[n].run(async |nd| {
            let data = nd
                .read(|c| {
                    (
                        dump_query(c, "SELECT * FROM t ORDER BY id"),
                        read_changes(c, None).iter().map(project).collect::<Vec<_>>(),
                    )
                })
                .await;
            let book = nd
                .read(|c| {
                    (
                        dump_query(c, "SELECT hex(actor_id), start, end FROM __corro_bookkeeping_gaps ORDER BY 1,2"),
                        dump_query(c, "SELECT hex(site_id), db_version, start_seq, end_seq, last_seq FROM __corro_seq_bookkeeping ORDER BY 1,2,3"),
                        dump_query(c, "SELECT hex(site_id), db_version, seq, \"table\", hex(pk), cid, val, col_version, cl FROM __corro_buffered_changes ORDER BY 1,2,3"),
                        dump_query(c, "SELECT hex(site_id), db_version FROM crsql_db_versions ORDER BY 1"),
                    )
                })
                .await;
            let view = nd.booked_view().await;
            let pa = nd.pending_apply();
            let pc = nd.pending_clear();
            let dd = digest(&data);
            (digest(&(dd, &book, format!("{view:?}"), format!("{pa:?}"), format!("{pc:?}"))), dd)
        })
    }

    // -------------------------------------------------------------- oracles

    fn check_state(&mut self, cfg: &Cfg, tag: &str) {
        for n in 0..self.nodes.len() {
            let model = self.models[n].clone();
            // I1 (C02)
            if cfg.props.contains("C02") || cfg.props.contains("C06") {
                let tag2 = format!("{tag} node {n}");
                let v = self.nodes[n].run(async |nd| {
                    let mut pc = nd.pending_clear();
                    check_sync_state_with(nd, &model, &tag2, &mut pc).await
                });
                for (k, d) in v {
                    if cfg.props.contains("C02") {
                        self.viol.push((k.clone(), d.clone()));
                    }
                    // under C06 the recovery oracle is one-sided: the rebuilt state may know less
                    // than before the crash, never more
                    if cfg.props.contains("C06") && tag.contains("after-crash") {
                        let sound = k.ends_with("partial-version-advertised-as-held") || k.ends_with("unreceived-version-advertised-as-held");
                        let narrower = k.ends_with("partial-missing-ranges-wrong") && {
                            let adv: BTreeSet<u64> = serde_json::from_value(d["d"]["advertised_missing"].clone()).unwrap_or_default();
                            let truly: BTreeSet<u64> = serde_json::from_value(d["d"]["truly_missing"].clone()).unwrap_or_default();
                            !truly.is_subset(&adv)
                        };
                        if sound || narrower {
                            self.viol.push((k.replace("C02:", "C06:rebuilt-state-"), d));
                        }
                    }
                }
                // C06: every acknowledged local transaction is still known after the restart
                if cfg.props.contains("C06") && tag.contains("after-crash") {
                    let own = self.nodes[n].node().actor_id();
                    let acked: Vec<u64> = self.ledger.iter().filter(|l| l.actor == own).map(|l| l.version).collect();
                    if let Some(maxv) = acked.iter().max().copied() {
                        let st = self.nodes[n].run(async |nd| nd.sync_state().await);
                        let head = st.heads.get(&own).map(|h| h.0).unwrap_or(0);
                        let lost_need = st.need.get(&own).map(|r| !r.is_empty()).unwrap_or(false);
                        if head < maxv || lost_need {
                            self.viol.push(("C06:acknowledged-local-version-unknown-after-restart".into(), json!({"node": n, "head": head, "acknowledged": acked, "need": format!("{:?}", st.need.get(&own))})));
                        }
                        let have: BTreeSet<_> = self.nodes[n].run(async |nd| nd.crsql_changes().await).iter().map(project).collect();
                        // rows of own versions that no later version overwrote must still be there:
                        // judged through the closure's comparison with the reference merge
                        let _ = have;
                    }
                }
            }
            // I2 (C03) no partial visibility + I3 (C01) nothing outside the ledger
            let own = self.nodes[n].node().actor_id();
            let rows = self.nodes[n].run(async |nd| nd.crsql_changes().await);
            let ledger_rows: BTreeSet<_> = self.ledger.iter().flat_map(|l| l.changes.iter().map(project)).collect();
            for r in &rows {
                let a = ActorId::from_bytes(r.site_id);
                if cfg.props.contains("C01") && !ledger_rows.contains(&project(r)) {
                    self.viol.push((
                        "C01:exposed-change-not-in-any-acknowledged-transaction".into(),
                        json!({"node": n, "row": format!("{r:?}"), "at": tag}),
                    ));
                }
                if cfg.props.contains("C03") && a != own {
                    let m = model.actors.get(&a);
                    let v = r.db_version.0;
                    let ok = m.map(|m| m.held.contains(&v)).unwrap_or(false);
                    if !ok {
                        self.viol.push((
                            "C03:change-visible-before-version-covered".into(),
                            json!({"node": n, "actor": a.to_string(), "version": v, "seq": r.seq.0, "at": tag,
                                   "received": m.and_then(|m| m.recv.get(&v).cloned())}),
                        ));
                    }
                }
            }
            // C03: a version whose chunks all arrived (in one piece or covered and applied) is not
            // partial or needed any more - it became visible at that step
            if cfg.props.contains("C03") {
                let st = self.nodes[n].run(async |nd| nd.sync_state().await);
                for (a, m) in model.actors.iter() {
                    if *a == own {
                        continue;
                    }
                    for v in m.held.iter() {
                        let in_need = st.need.get(a).map(|rs| rs.iter().any(|r| r.start().0 <= *v && *v <= r.end().0)).unwrap_or(false);
                        let in_partial = st.partial_need.get(a).map(|p| p.contains_key(&CrsqlDbVersion(*v))).unwrap_or(false);
                        let head = st.heads.get(a).map(|h| h.0).unwrap_or(0);
                        if in_need || in_partial || head < *v {
                            self.viol.push((
                                "C03:fully-received-version-not-applied".into(),
                                json!({"node": n, "actor": a.to_string(), "version": v, "at": tag, "listed_as": if in_partial { "partial" } else if in_need { "needed" } else { "above head" },
                                       "partial_need": format!("{:?}", st.partial_need.get(a))}),
                            ));
                        }
                    }
                }
            }
            // C03: a covered version must have an apply trigger pending (or be applied already)
            if cfg.props.contains("C03") {
                let pending: Vec<(ActorId, CrsqlDbVersion)> = self.nodes[n].run(async |nd| nd.pending_apply());
                for (a, m) in model.actors.iter() {
                    for v in m.recv.keys() {
                        let covered = m.covered(*v);
                        let held = m.held.contains(v);
                        let has = pending.iter().any(|(pa, pv)| pa == a && pv.0 == *v);
                        if covered && !held && !has {
                            self.viol.push((
                                "C03:covered-version-has-no-apply-trigger".into(),
                                json!({"node": n, "actor": a.to_string(), "version": v, "at": tag}),
                            ));
                        }
                        if !covered && has {
                            self.viol.push((
                                "C03:apply-trigger-for-uncovered-version".into(),
                                json!({"node": n, "actor": a.to_string(), "version": v, "at": tag}),
                            ));
                        }
                    }
                }
            }
            // I4 (C05)
            if cfg.server_oracle && cfg.props.contains("C05") {
                let v = self.check_server(n, tag);
                self.viol.extend(v);
            }
        }
    }

    /// C05: every possible request to node `n` as a server, judged from its own tables, its own
    /// advertised state and the delivery model.
    fn check_server(&mut self, n: usize, tag: &str) -> Vec<(String, Value)> {
        let model = self.models[n].clone();
        let lasts: BTreeMap<(ActorId, u64), u64> = self.ledger.iter().map(|l| ((l.actor, l.version), l.last_seq)).collect();
        let tag = tag.to_string();
        self.nodes[n].run(async |nd| {
            let mut out = vec![];
            let st = nd.sync_state().await;
            let mut heads: Vec<(ActorId, u64)> = st.heads.iter().map(|(a, h)| (*a, h.0)).collect();
            heads.sort();
            for (a, head) in heads {
                let need: BTreeSet<u64> = st.need.get(&a).map(|r| r.iter().flat_map(|r| r.start().0..=r.end().0).collect()).unwrap_or_default();
                let partial: BTreeSet<u64> = st.partial_need.get(&a).map(|p| p.keys().map(|v| v.0).collect()).unwrap_or_default();
                let (live, seq_rows, buffered) = nd
                    .read(move |c| {
                        let live: Vec<Change> = read_changes(c, Some(a));
                        let seqs: Vec<(u64, u64, u64, u64)> = c
                            .prepare("SELECT db_version, start_seq, end_seq, last_seq FROM __corro_seq_bookkeeping WHERE site_id = ? ORDER BY 1,2")
                            .unwrap()
                            .query_map([a], |r| Ok((r.get(0)?, r.get(1)?, r.get(2)?, r.get(3)?)))
                            .unwrap()
                            .collect::<rusqlite::Result<_>>()
                            .unwrap();
                        let mut st = c
                            .prepare(r#"SELECT "table", pk, cid, val, col_version, db_version, seq, site_id, cl FROM __corro_buffered_changes WHERE site_id = ? ORDER BY db_version, seq"#)
                            .unwrap();
                        let buf: Vec<Change> = st.query_map([a], klukai_types::change::row_to_change).unwrap().collect::<rusqlite::Result<_>>().unwrap();
                        (live, seqs, buf)
                    })
                    .await;
                let m = model.actors.get(&a).cloned().unwrap_or_default();
                // requests
                let mut reqs: Vec<SyncNeedV1> = vec![];
                for lo in 1..=head {
                    for hi in lo..=head {
                        reqs.push(SyncNeedV1::Full { versions: CrsqlDbVersion(lo)..=CrsqlDbVersion(hi) });
                    }
                }
                for v in 1..=head {
                    let l = lasts.get(&(a, v)).copied().unwrap_or(1);
                    for i in 0..=l {
                        for j in i..=l {
                            reqs.push(SyncNeedV1::Partial { version: CrsqlDbVersion(v), seqs: vec![CrsqlSeq(i)..=CrsqlSeq(j)] });
                        }
                    }
                    if l >= 2 {
                        reqs.push(SyncNeedV1::Partial { version: CrsqlDbVersion(v), seqs: vec![CrsqlSeq(0)..=CrsqlSeq(0), CrsqlSeq(2)..=CrsqlSeq(l)] });
                    }
                }
                for req in reqs {
                    i4(4);
                    let answers = match nd.serve(vec![(a, vec![req.clone()])]).await {
                        Ok(x) => x,
                        Err(e) => {
                            out.push(("C05:serve-error".to_string(), json!({"node": n, "req": format!("{req:?}"), "err": e})));
                            continue;
                        }
                    };
                    let (versions, ranges): (Vec<u64>, Option<Vec<(u64, u64)>>) = match &req {
                        SyncNeedV1::Full { versions } => ((versions.start().0..=versions.end().0).collect(), None),
                        SyncNeedV1::Partial { version, seqs } => (vec![version.0], Some(seqs.iter().map(|r| (r.start().0, r.end().0)).collect())),
                        _ => (vec![], None),
                    };
                    let mut bad = |key: &str, v: u64, msg: String| {
                        out.push((
                            format!("C05:{key}"),
                            json!({"node": n, "actor": a.to_string(), "version": v, "req": format!("{req:?}"), "msg": msg, "at": tag,
                                   "answers": answers.iter().map(|x| format!("{:?} seqs={:?} last={:?} n={}", x.versions(), x.seqs(), x.last_seq(), x.len())).collect::<Vec<_>>()}),
                        ));
                    };
                    // answers must be about this actor and inside the request
                    for ans in &answers {
                        if ans.actor_id != a {
                            bad("answer-for-other-actor", 0, format!("{:?}", ans.actor_id));
                        }
                        for v in ans.versions().start().0..=ans.versions().end().0 {
                            if !versions.contains(&v) {
                                bad("answer-outside-request", v, String::new());
                            }
                        }
                        if let Changeset::Full { changes, seqs, .. } = &ans.changeset {
                            for c in changes {
                                if c.seq < *seqs.start() || c.seq > *seqs.end() {
                                    bad("change-outside-changeset-range", ans.versions().start().0, format!("seq {} not in {:?}", c.seq.0, seqs));
                                }
                            }
                        }
                    }
                    for v in versions {
                        let live_v: Vec<&Change> = live.iter().filter(|c| c.db_version.0 == v).collect();
                        let stored_v: Vec<(u64, u64, u64)> = seq_rows.iter().filter(|r| r.0 == v).map(|r| (r.1, r.2, r.3)).collect();
                        let buf_v: Vec<&Change> = buffered.iter().filter(|c| c.db_version.0 == v).collect();
                        let fulls: Vec<&ChangeV1> = answers.iter().filter(|x| matches!(x.changeset, Changeset::Full { .. }) && x.versions().start().0 == v).collect();
                        let empties = answers
                            .iter()
                            .filter(|x| matches!(x.changeset, Changeset::Empty { .. }) && x.versions().start().0 <= v && v <= x.versions().end().0)
                            .count();
                        let model_partial = m.recv.contains_key(&v) && !m.held.contains(&v) && !m.covered(v);
                        if empties > 0 && (need.contains(&v) || partial.contains(&v) || model_partial) {
                            bad(
                                "declares-empty-a-version-it-needs-or-holds-partially",
                                v,
                                format!("need={} partial_need={} model_partial={model_partial} seq_rows={stored_v:?} buffered_rows={}", need.contains(&v), partial.contains(&v), buf_v.len()),
                            );
                            continue;
                        }
                        if need.contains(&v) {
                            i4(0);
                            if !fulls.is_empty() || empties > 0 {
                                bad("answers-for-a-version-it-needs", v, String::new());
                            }
                            continue;
                        }
                        if !live_v.is_empty() {
                            // fully held with live rows
                            i4(1);
                            let last = live_v.iter().map(|c| c.seq.0).max().unwrap();
                            if empties > 0 {
                                bad("declares-empty-a-version-with-live-changes", v, String::new());
                            }
                            if fulls.iter().any(|f| f.last_seq().map(|l| l.0) != Some(last)) {
                                bad("last-seq-disagrees", v, format!("live max seq {last}"));
                            }
                            let want_ranges: Vec<(u64, u64)> = match &ranges {
                                None => vec![(0, last)],
                                Some(r) => r.clone(),
                            };
                            let mut got: Vec<(u64, u64)> = fulls.iter().map(|f| (f.seqs().unwrap().start().0, f.seqs().unwrap().end().0)).collect();
                            got.sort();
                            // the answer ranges must tile each wanted range
                            let mut ok = true;
                            let mut gi = 0;
                            for (ws, we) in &want_ranges {
                                let mut cur = *ws;
                                while cur <= *we {
                                    if gi < got.len() && got[gi].0 == cur && got[gi].1 <= *we {
                                        cur = got[gi].1 + 1;
                                        gi += 1;
                                    } else {
                                        ok = false;
                                        break;
                                    }
                                }
                            }
                            if gi != got.len() {
                                ok = false;
                            }
                            // an empty 0..=last answer is legitimately not sent; nothing to tile then
                            if !ok {
                                bad("ranges-do-not-tile-request", v, format!("want {want_ranges:?} got {got:?}"));
                            }
                            let mut sent: Vec<_> = fulls.iter().flat_map(|f| f.changes().iter().map(project)).collect();
                            sent.sort();
                            let mut want: Vec<_> = live_v
                                .iter()
                                .filter(|c| want_ranges.iter().any(|(s, e)| *s <= c.seq.0 && c.seq.0 <= *e))
                                .map(|c| project(c))
                                .collect();
                            want.sort();
                            if sent != want {
                                bad("changes-differ-from-live-rows", v, format!("sent {} want {}", sent.len(), want.len()));
                            }
                        } else if !stored_v.is_empty() || !buf_v.is_empty() {
                            // buffered (partially or completely), not applied
                            i4(2);
                            if empties > 0 {
                                bad("declares-empty-a-buffered-version", v, format!("seq_rows={stored_v:?} buffered_rows={}", buf_v.len()));
                            }
                            let mut want_set: BTreeSet<u64> = stored_v.iter().flat_map(|(s, e, _)| *s..=*e).collect();
                            if let Some(r) = &ranges {
                                let rq: BTreeSet<u64> = r.iter().flat_map(|(s, e)| *s..=*e).collect();
                                want_set = want_set.intersection(&rq).copied().collect();
                            }
                            let got_set: BTreeSet<u64> = fulls.iter().flat_map(|f| f.seqs().unwrap().start().0..=f.seqs().unwrap().end().0).collect();
                            if got_set != want_set {
                                bad("buffered-ranges-differ-from-stored", v, format!("stored∩request {want_set:?} sent {got_set:?}"));
                            }
                            let mut sent: Vec<_> = fulls.iter().flat_map(|f| f.changes().iter().map(project)).collect();
                            sent.sort();
                            let mut want: Vec<_> = buf_v.iter().filter(|c| want_set.contains(&c.seq.0)).map(|c| project(c)).collect();
                            want.sort();
                            if sent != want {
                                bad("changes-differ-from-buffered-rows", v, format!("sent {} want {}", sent.len(), want.len()));
                            }
                        } else {
                            // held without live changes: must be declared empty, nothing else
                            i4(3);
                            if !fulls.is_empty() {
                                bad("sends-changes-for-a-version-without-any", v, String::new());
                            }
                            if empties == 0 {
                                bad("silent-about-a-held-empty-version", v, String::new());
                            }
                        }
                    }
                }
            }
            out
        })
    }

    /// fair closure + convergence oracle (C01). Mutates the nodes: call last.
    fn closure(&mut self, cfg: &Cfg, reference: &RefState) {
        let nn = self.nodes.len();
        let mut rounds = 0;
        let max_rounds = 2 * nn + 3;
        loop {
            let before: Vec<u64> = (0..nn).map(|n| self.node_digests(n).0).collect();
            for n in 0..nn {
                for m in 0..nn {
                    if n != m {
                        self.apply_event(&Ev::S { n, m, loss: Loss::None, batch: true });
                        self.drain(n);
                    }
                }
            }
            for n in 0..nn {
                self.drain(n);
            }
            let after: Vec<u64> = (0..nn).map(|n| self.node_digests(n).0).collect();
            rounds += 1;
            if before == after {
                break;
            }
            if rounds >= max_rounds {
                self.viol.push(("C01:closure-does-not-quiesce".into(), json!({"rounds": rounds})));
                break;
            }
        }
        if !cfg.props.contains("C01") && !cfg.props.contains("C06") && !cfg.props.contains("C03") {
            return;
        }
        let p = if cfg.props.contains("C01") { "C01" } else if cfg.props.contains("C06") { "C06" } else { "C03" };
        let total: BTreeMap<ActorId, u64> = self.ledger.iter().fold(BTreeMap::new(), |mut m, l| {
            let e = m.entry(l.actor).or_insert(0);
            *e = (*e).max(l.version);
            m
        });
        for n in 0..nn {
            let (rows, clock, st, leftovers) = self.nodes[n].run(async |nd| {
                let rows = nd.table_rows("t").await;
                let clock: Vec<_> = nd.crsql_changes().await.iter().map(|c| (c.table.to_string(), c.pk.clone(), c.cid.to_string(), c.col_version, c.cl)).collect::<BTreeSet<_>>().into_iter().collect();
                let st = nd.sync_state().await;
                let left = nd
                    .read(|c| {
                        (
                            dump_query(c, "SELECT hex(site_id), db_version, seq FROM __corro_buffered_changes ORDER BY 1,2,3"),
                            dump_query(c, "SELECT hex(site_id), db_version, start_seq, end_seq FROM __corro_seq_bookkeeping ORDER BY 1,2,3"),
                        )
                    })
                    .await;
                (rows, clock, st, left)
            });
            if rows != reference.rows {
                self.viol.push((format!("{p}:tables-differ-from-merge-of-all-acknowledged-transactions"), json!({"node": n, "rows": rows, "reference": reference.rows, "rounds": rounds})));
            }
            if clock != reference.clock {
                self.viol.push((format!("{p}:cell-versions-differ-from-reference-merge"), json!({"node": n, "clock": format!("{clock:?}"), "reference": format!("{:?}", reference.clock)})));
            }
            let residual_need = st.need.values().any(|v| !v.is_empty()) || st.partial_need.values().any(|v| !v.is_empty());
            if residual_need {
                self.viol.push((format!("{p}:residual-need-after-closure"), json!({"node": n, "need": format!("{:?}", st.need), "partial_need": format!("{:?}", st.partial_need)})));
            }
            for (a, h) in &total {
                if st.heads.get(a).map(|x| x.0).unwrap_or(0) != *h {
                    self.viol.push((format!("{p}:head-not-reached-after-closure"), json!({"node": n, "actor": a.to_string(), "head": st.heads.get(a).map(|x| x.0), "want": h})));
                }
            }
            if cfg.props.contains("C03") && (!leftovers.0.is_empty() || !leftovers.1.is_empty()) {
                self.viol.push(("C03:buffered-copies-left-after-closure".into(), json!({"node": n, "buffered": leftovers.0, "seq_rows": leftovers.1})));
            }
        }
    }

    fn commit_count(&self, n: usize) -> usize {
        match std::fs::read(wal_path(&self.nodes[n].db_path)) {
            Ok(w) => wal_commit_offsets(&w).len(),
            Err(_) => 0,
        }
    }

    fn pre(&self) -> Pre {
        Pre {
            models: self.models.clone(),
            ledger_len: self.ledger.len(),
            commits: (0..self.nodes.len()).map(|n| self.commit_count(n)).collect(),
        }
    }

    /// C06. Every durable state the last step went through on the node it ran on: the WAL cut after
    /// each commit frame the step appended, and inside its first transaction. Each image is started
    /// with the real `start_with_config`, left to settle, judged, then synced from the other nodes
    /// and compared with the reference merge.
    fn crash_forks(&mut self, w: &World, cfg: &Cfg, pre: &Pre, ev: &Ev, refcache: &mut RefCache, final_too: bool) {
        let n = match ev {
            Ev::D { n, .. } | Ev::B { n, .. } | Ev::S { n, .. } | Ev::A { n } | Ev::K { n } | Ev::W { n, .. } => *n,
            Ev::X { .. } => return,
        };
        let db_path = self.nodes[n].db_path.clone();
        let wal = std::fs::read(wal_path(&db_path)).unwrap_or_default();
        let offs = wal_commit_offsets(&wal);
        let before = pre.commits[n];
        if offs.len() < before {
            machinery_error("crash forks: the write-ahead log was checkpointed during the step");
        }
        let new: Vec<usize> = offs[before..].to_vec();
        if new.is_empty() {
            return;
        }
        let start_off = if before == 0 { 32 } else { offs[before - 1] };
        let fl = wal_frame_len(&wal);
        // cuts inside the step's first transaction recover to the image the previous step's last
        // commit left (already judged there); they are taken in the thorough tier only, as a check
        // that a torn tail is ignored
        let mut cuts: Vec<(usize, Cut)> = vec![];
        if cfg.torn_cuts && final_too {
            cuts.push((start_off + fl / 2, Cut::Before));
            if new[0] - start_off > fl {
                cuts.push((new[0] - fl, Cut::Before));
            }
        }
        for (i, o) in new.iter().enumerate() {
            if i + 1 == new.len() {
                if final_too {
                    cuts.push((*o, Cut::Final));
                }
            } else {
                cuts.push((*o, Cut::Inner));
            }
        }
        let own = self.nodes[n].node().actor_id();
        for (cut, kind) in cuts {
            FORKS[kind as usize].fetch_add(1, std::sync::atomic::Ordering::Relaxed);
            let dir = self._scratch.path().join(format!("fork_{n}_{cut}"));
            let img = crash_image(&db_path, &wal, cut, &dir);
            let t_f = Instant::now();
            let timing = std::env::var("VH_TIMING").is_ok();
            let mut full = match FullNode::start(&img) {
                Ok(f) => f,
                Err(e) => {
                    self.viol.push(("C06:restart-failed".into(), json!({"node": n, "cut": format!("{kind:?}"), "err": e})));
                    continue;
                }
            };
            // which knowledge is durable at this cut
            let model = if kind == Cut::Before { pre.models[n].clone() } else { self.models[n].clone() };
            let exact_model = if kind == Cut::Final { self.models[n].clone() } else { pre.models[n].clone() };
            let acked: Vec<LVer> = self.ledger[..if kind == Cut::Final { self.ledger.len() } else { pre.ledger_len }].to_vec();
            let tag = format!("after-crash cut={kind:?}");

            // (a) versions fully buffered at the cut must get applied by the restarted node itself
            let expect: Vec<(ActorId, u64)> = exact_model
                .actors
                .iter()
                .flat_map(|(a, m)| m.recv.keys().filter(|v| m.covered(**v) && !m.held.contains(*v) && self.models[n].actors.get(a).map(|x| x.covered(**v) || x.held.contains(*v)).unwrap_or(false)).map(|v| (*a, *v)).collect::<Vec<_>>())
                .collect();
            let exp2 = expect.clone();
            let unapplied: Vec<(ActorId, u64)> = full.run(async |nd| {
                let start = Instant::now();
                loop {
                    let st = nd.sync_state().await;
                    let mut left = vec![];
                    for (a, v) in &exp2 {
                        let head = st.heads.get(a).map(|h| h.0).unwrap_or(0);
                        let in_need = st.need.get(a).map(|rs| rs.iter().any(|r| r.start().0 <= *v && *v <= r.end().0)).unwrap_or(false);
                        let in_partial = st.partial_need.get(a).map(|p| p.contains_key(&CrsqlDbVersion(*v))).unwrap_or(false);
                        let (aa, vv) = (*a, *v);
                        let buffered: i64 = nd
                            .read(move |c| c.query_row("SELECT count(*) FROM __corro_buffered_changes WHERE site_id = ? AND db_version = ?", rusqlite::params![aa, vv], |r| r.get(0)).unwrap())
                            .await;
                        if head < *v || in_need || in_partial || buffered > 0 {
                            left.push((*a, *v));
                        }
                    }
                    if left.is_empty() || start.elapsed() > Duration::from_secs(5) {
                        nd.quiesce().await;
                        return left;
                    }
                    tokio::time::sleep(Duration::from_millis(2)).await;
                }
            });
            for (a, v) in unapplied {
                self.viol.push(("C06:fully-buffered-version-not-applied-after-restart".into(), json!({"node": n, "actor": a.to_string(), "version": v, "cut": format!("{kind:?}")})));
            }
            if expect.is_empty() {
                // nothing to wait for: give the start-up triggers a moment, they must not apply anything
                full.run(async |nd| {
                    tokio::time::sleep(Duration::from_millis(15)).await;
                    nd.quiesce().await;
                });
            }
            if timing {
                eprintln!("fork {kind:?}: started+settled {:?} expect={}", t_f.elapsed(), expect.len());
            }
            // (b) the rebuilt sync state is sound and not narrower than the truth
            let tag2 = tag.clone();
            let m2 = model.clone();
            let v = full.run(async |nd| {
                let mut pc = vec![];
                check_sync_state_with(nd, &m2, &tag2, &mut pc).await
            });
            for (k, d) in v {
                let sound = k.ends_with("partial-version-advertised-as-held") || k.ends_with("unreceived-version-advertised-as-held");
                let narrower = k.ends_with("partial-missing-ranges-wrong") && {
                    let adv: BTreeSet<u64> = serde_json::from_value(d["d"]["advertised_missing"].clone()).unwrap_or_default();
                    let truly: BTreeSet<u64> = serde_json::from_value(d["d"]["truly_missing"].clone()).unwrap_or_default();
                    !truly.is_subset(&adv)
                };
                if sound || narrower {
                    self.viol.push((k.replace("C02:", "C06:rebuilt-state-"), json!({"node": n, "cut": format!("{kind:?}"), "d": d})));
                }
            }
            // (c) every acknowledged local transaction is there
            let own_acked: Vec<&LVer> = acked.iter().filter(|l| l.actor == own).collect();
            let (st, rows) = full.run(async |nd| (nd.sync_state().await, nd.crsql_changes().await));
            if let Some(last) = own_acked.iter().max_by_key(|l| l.version) {
                let head = st.heads.get(&own).map(|h| h.0).unwrap_or(0);
                let lost_need = st.need.get(&own).map(|r| !r.is_empty()).unwrap_or(false);
                if head < last.version || lost_need {
                    self.viol.push(("C06:acknowledged-local-version-unknown-after-restart".into(), json!({"node": n, "cut": format!("{kind:?}"), "head": head, "acknowledged": own_acked.iter().map(|l| l.version).collect::<Vec<_>>()})));
                }
                let have: BTreeSet<_> = rows.iter().map(project).collect();
                // cells of the latest acknowledged own version that no later own version rewrote
                for c in &last.changes {
                    if !have.contains(&project(c)) {
                        self.viol.push(("C06:acknowledged-local-change-missing-after-restart".into(), json!({"node": n, "cut": format!("{kind:?}"), "change": format!("{c:?}")})));
                        break;
                    }
                }
            }
            // nothing visible that was not covered at the cut (or acknowledged)
            for r in &rows {
                let a = ActorId::from_bytes(r.site_id);
                if a == own {
                    continue;
                }
                let ok = self.models[n].actors.get(&a).map(|m| m.held.contains(&r.db_version.0) || m.covered(r.db_version.0)).unwrap_or(false);
                if !ok {
                    self.viol.push(("C06:uncovered-version-visible-after-restart".into(), json!({"node": n, "cut": format!("{kind:?}"), "actor": a.to_string(), "version": r.db_version.0})));
                    break;
                }
            }
            if timing {
                eprintln!("fork {kind:?}: oracles {:?}", t_f.elapsed());
            }
            // (d) the restarted node catches up from its peers and ends at the reference merge
            let mut rounds = 0;
            loop {
                let mut moved = false;
                for m in 0..self.nodes.len() {
                    if m == n {
                        continue;
                    }
                    let ours = full.run(async |nd| nd.sync_state().await);
                    let theirs = self.nodes[m].run(async |nd| nd.sync_state().await);
                    let needs = ours.compute_available_needs(&theirs);
                    let mut req: Vec<(ActorId, Vec<SyncNeedV1>)> = needs.into_iter().collect();
                    req.sort_by_key(|r| r.0);
                    if req.is_empty() {
                        continue;
                    }
                    let answers = match self.nodes[m].run(async |nd| nd.serve(req).await) {
                        Ok(a) => a,
                        Err(_) => vec![],
                    };
                    if answers.is_empty() {
                        continue;
                    }
                    moved = true;
                    let r = full.run(async |nd| {
                        let t_d = Instant::now();
                        let now = Instant::now();
                        let r = klukai_agent::agent::process_multiple_changes(
                            nd.agent.clone(),
                            nd.bookie.clone(),
                            answers.into_iter().map(|c| (c, klukai_types::broadcast::ChangeSource::Sync, now)).collect(),
                            Duration::from_secs(60),
                        )
                        .await
                        .map_err(|e| e.to_string());
                        if std::env::var("VH_TIMING").is_ok() {
                            eprintln!("  pmc {:?} alive {} base {}", t_d.elapsed(), alive_tasks(), baseline());
                        }
                        // the node's own loops apply and clear; wait until nothing complete is left buffered
                        let start = Instant::now();
                        loop {
                            let views = nd.booked_view().await;
                            // complete in memory and its buffered copies still on disk: the node's
                            // apply / clear loops are not done with it (an applied partial may
                            // linger in memory; that is not observable and not waited for)
                            let mut complete: Vec<(ActorId, u64)> = vec![];
                            for (a, bv) in views.iter() {
                                for (v, seqs, last) in &bv.partials {
                                    let s: BTreeSet<u64> = seqs.iter().flat_map(|(a, b)| *a..=*b).collect();
                                    if (0..=*last).all(|q| s.contains(&q)) {
                                        complete.push((*a, *v));
                                    }
                                }
                            }
                            let pending = nd
                                .read(move |c| {
                                    complete.iter().any(|(a, v)| {
                                        c.query_row(
                                            "SELECT EXISTS (SELECT 1 FROM __corro_buffered_changes WHERE site_id = ?1 AND db_version = ?2) OR EXISTS (SELECT 1 FROM __corro_seq_bookkeeping WHERE site_id = ?1 AND db_version = ?2)",
                                            rusqlite::params![a, v],
                                            |r| r.get::<_, bool>(0),
                                        )
                                        .unwrap()
                                    })
                                })
                                .await;
                            if !pending || start.elapsed() > Duration::from_secs(5) {
                                if pending && std::env::var("VH_TIMING").is_ok() {
                                    eprintln!("pending after 5s: {views:?}");
                                }
                                break;
                            }
                            tokio::time::sleep(Duration::from_millis(2)).await;
                        }
                        if std::env::var("VH_TIMING").is_ok() {
                            eprintln!("  pending-wait {:?} alive {} base {}", t_d.elapsed(), alive_tasks(), baseline());
                        }
                        nd.quiesce().await;
                        if std::env::var("VH_TIMING").is_ok() {
                            eprintln!("  quiesced {:?}", t_d.elapsed());
                        }
                        r
                    });
                    if let Err(e) = r {
                        self.viol.push(("ALL:process_multiple_changes-error".into(), json!({"node": n, "err": e, "at": "catch-up after restart"})));
                    }
                }
                rounds += 1;
                if !moved || rounds >= 6 {
                    break;
                }
            }
            if timing {
                eprintln!("fork {kind:?}: catch-up {:?} rounds={rounds}", t_f.elapsed());
            }
            let reference = ref_for(w, &acked, refcache);
            let alt = if kind == Cut::Inner && pre.ledger_len != self.ledger.len() { Some(ref_for(w, &self.ledger, refcache)) } else { None };
            let (rows, clock, st) = full.run(async |nd| {
                let rows = nd.table_rows("t").await;
                let clock: Vec<_> = nd.crsql_changes().await.iter().map(|c| (c.table.to_string(), c.pk.clone(), c.cid.to_string(), c.col_version, c.cl)).collect::<BTreeSet<_>>().into_iter().collect();
                (rows, clock, nd.sync_state().await)
            });
            // peers may not hold everything (they are mid-dissemination too): compare only when they do
            let peers_complete = acked.iter().all(|l| {
                l.actor == own || (0..self.nodes.len()).any(|m| m != n && self.models[m].actors.get(&l.actor).map(|x| x.held.contains(&l.version)).unwrap_or(false) || self.nodes[m].node().actor_id() == l.actor)
            });
            if peers_complete {
                let matches = |r: &RefState| rows == r.rows && clock == r.clock;
                if !(matches(&reference) || alt.as_ref().map(|a| matches(a)).unwrap_or(false)) {
                    self.viol.push(("C06:restarted-node-does-not-reach-the-reference-merge".into(), json!({"node": n, "cut": format!("{kind:?}"), "rows": rows, "reference": reference.rows, "rounds": rounds})));
                }
                let residual = st.need.values().any(|v| !v.is_empty()) || st.partial_need.values().any(|v| !v.is_empty());
                if residual {
                    self.viol.push(("C06:residual-need-after-restart-and-catch-up".into(), json!({"node": n, "cut": format!("{kind:?}"), "need": format!("{:?}", st.need), "partial_need": format!("{:?}", st.partial_need)})));
                }
            }
            drop(full);
            let _ = std::fs::remove_dir_all(&dir);
            if timing {
                eprintln!("fork {kind:?}: done {:?}", t_f.elapsed());
            }
        }
    }

    fn drain(&mut self, n: usize) {
        for _ in 0..64 {
            let a = self.nodes[n].run(async |nd| nd.apply_one().await);
            if let Some((act, v, Ok(_))) = &a {
                self.models[n].on_apply(*act, v.0);
            }
            let k = self.nodes[n].run(async |nd| nd.clear_one().await);
            if a.is_none() && k.is_none() {
                break;
            }
        }
    }
}

#[derive(Clone, Debug)]
struct RefState {
    rows: Vec<Vec<String>>,
    clock: Vec<(String, Vec<u8>, String, i64, i64)>,
}

/// Reference merge: a fresh node receiving every acknowledged version complete, in order.
fn reference_merge(w: &World, ledger: &[LVer]) -> RefState {
    let s = Scratch::new("ref");
    let p = w.tpl_ref.instantiate(&s.path().join("r"));
    let mut r = RtNode::open(&p, NodeOpts::default());
    for l in ledger {
        let c = l.chunk(0, l.last_seq);
        r.run(async |nd| nd.deliver(vec![c]).await).unwrap();
    }
    r.run(async |nd| {
        let rows = nd.table_rows("t").await;
        let clock = nd.crsql_changes().await.iter().map(|c| (c.table.to_string(), c.pk.clone(), c.cid.to_string(), c.col_version, c.cl)).collect::<BTreeSet<_>>().into_iter().collect();
        RefState { rows, clock }
    })
}

type RefCache = BTreeMap<u64, RefState>;

fn ref_for(w: &World, ledger: &[LVer], cache: &mut RefCache) -> RefState {
    let key = digest(&ledger.iter().map(|l| (l.origin, l.version, l.changes.iter().map(project).collect::<Vec<_>>())).collect::<Vec<_>>());
    if let Some(r) = cache.get(&key) {
        return r.clone();
    }
    let r = reference_merge(w, ledger);
    cache.insert(key, r.clone());
    r
}

/// What the harness knew right before the last event of a history.
struct Pre {
    models: Vec<NodeModel>,
    ledger_len: usize,
    commits: Vec<usize>,
}

#[derive(Clone, Copy, Debug, PartialEq, Eq)]
enum Cut {
    /// inside the step's first transaction (torn frame or whole non-commit frames): state before the step
    Before,
    /// after a commit of the step that is not its last one
    Inner,
    /// after the step's last commit: everything the step acknowledged is durable
    Final,
}

static FORKED: std::sync::Mutex<BTreeMap<u64, u64>> = std::sync::Mutex::new(BTreeMap::new());
static FORKS: [std::sync::atomic::AtomicU64; 4] = [const { std::sync::atomic::AtomicU64::new(0) }; 4];

fn subranges(l: u64) -> Vec<(u64, u64)> {
    let mut v = vec![];
    for i in 0..=l {
        for j in i..=l {
            v.push((i, j));
        }
    }
    v
}

fn run_history(w: &World, cfg: &Cfg, script: &Script, hist: &[Ev], refcache: &mut RefCache) -> Outcome<Ev> {
    let mut ex = Exec::start(w, cfg, script);
    let mut crashed_at_end = false;
    let mut pre: Option<Pre> = None;
    for (k, ev) in hist.iter().enumerate() {
        if cfg.crash_forks && k + 1 == hist.len() {
            pre = Some(ex.pre());
        }
        ex.apply_event(ev);
        crashed_at_end = k + 1 == hist.len() && matches!(ev, Ev::X { .. });
    }
    // drop violations raised while replaying the prefix (they were reported when it was explored),
    // keep only hard errors of the last step
    let tag = if crashed_at_end { format!("after-crash step {}", hist.len()) } else { format!("step {}", hist.len()) };
    // digest
    let nn = ex.nodes.len();
    let ds: Vec<(u64, u64)> = (0..nn).map(|n| ex.node_digests(n)).collect();
    let d = digest(&(ds.iter().map(|x| x.0).collect::<Vec<_>>(), &ex.models));
    let outcome = digest(&ds.iter().map(|x| x.1).collect::<Vec<_>>());
    ex.check_state(cfg, &tag);
    // C06: every crash point of the last step, restarted through the real start_with_config
    if let (Some(pre), Some(ev)) = (pre.as_ref(), hist.last()) {
        if !crashed_at_end {
            // the image after the step's last commit is a function of the state reached: judge it
            // once per distinct state (and again whenever the same history is re-executed)
            let first = {
                let mut g = FORKED.lock().unwrap();
                let hk = digest(&hist);
                let d = digest(&(cfg.family, d));
                match g.get(&d) {
                    Some(h0) => *h0 == hk,
                    None => {
                        g.insert(d, hk);
                        true
                    }
                }
            };
            ex.crash_forks(w, cfg, pre, ev, refcache, first);
        }
    }
    // C03 differential twin: the chunked path must give the same data as the unchunked one
    if cfg.props.contains("C03") && !cfg.twin_off {
        if let (Some(Ev::A { .. }), Some((n, x))) = (hist.last(), ex.last_applied) {
            if ex.tainted.contains(&(n, x)) || hist.iter().any(|e| matches!(e, Ev::S { .. })) {
                TWIN[1].fetch_add(1, std::sync::atomic::Ordering::Relaxed);
            } else {
                let l = ex.ledger[x].last_seq;
                let mut twin: Vec<Ev> = vec![];
                for e in &hist[..hist.len() - 1] {
                    match e {
                        Ev::D { n: dn, x: dx, .. } if *dn == n && *dx == x => {}
                        Ev::B { n: bn, a, b } if *bn == n && (a.0 == x || b.0 == x) => {
                            if a.0 != x {
                                twin.push(Ev::D { n, x: a.0, i: a.1, j: a.2 });
                            }
                            if b.0 != x {
                                twin.push(Ev::D { n, x: b.0, i: b.1, j: b.2 });
                            }
                        }
                        other => twin.push(other.clone()),
                    }
                }
                twin.push(Ev::D { n, x, i: 0, j: l });
                let mut cfg2 = cfg.clone();
                cfg2.twin_off = true;
                let mut ex2 = Exec::start(w, &cfg2, script);
                for e in &twin {
                    ex2.apply_event(e);
                }
                let d2 = ex2.node_digests(n).1;
                TWIN[0].fetch_add(1, std::sync::atomic::Ordering::Relaxed);
                if d2 != ds[n].1 {
                    let rows = ex.nodes[n].run(async |nd| nd.table_rows("t").await);
                    let rows2 = ex2.nodes[n].run(async |nd| nd.table_rows("t").await);
                    ex.viol.push((
                        "C03:chunked-result-differs-from-unchunked".into(),
                        json!({"node": n, "ledger_version": x, "twin_history": twin, "rows": rows, "twin_rows": rows2}),
                    ));
                }
            }
        }
    }
    // enabled events
    let mut enabled = vec![];
    let ledger = ex.ledger.clone();
    for &n in &cfg.receivers {
        let own = ex.nodes[n].node().actor_id();
        for (x, l) in ledger.iter().enumerate() {
            if l.actor == own {
                continue;
            }
            let held = ex.models[n].actors.get(&l.actor).map(|m| m.held.contains(&l.version)).unwrap_or(false);
            if held {
                if cfg.redeliver_held {
                    enabled.push(Ev::D { n, x, i: 0, j: l.last_seq });
                }
                continue;
            }
            for (i, j) in subranges(l.last_seq) {
                enabled.push(Ev::D { n, x, i, j });
            }
            if cfg.batches && l.last_seq >= 1 {
                for cut in 0..l.last_seq {
                    enabled.push(Ev::B { n, a: (x, 0, cut), b: (x, cut + 1, l.last_seq) });
                    enabled.push(Ev::B { n, a: (x, cut + 1, l.last_seq), b: (x, 0, cut) });
                    enabled.push(Ev::B { n, a: (x, 0, cut + 1), b: (x, cut + 1, l.last_seq) });
                }
                for (y, l2) in ledger.iter().enumerate() {
                    if y != x && l2.actor != own {
                        enabled.push(Ev::B { n, a: (x, 0, 0), b: (y, 0, l2.last_seq) });
                    }
                }
            }
        }
    }
    for n in 0..nn {
        let (pa, pc) = ex.nodes[n].run(async |nd| (nd.pending_apply().len(), nd.pending_clear().len()));
        if pa > 0 {
            enabled.push(Ev::A { n });
        }
        if pc > 0 {
            enabled.push(Ev::K { n });
        }
        if cfg.allow_crash && !crashed_at_end {
            enabled.push(Ev::X { n });
        }
    }
    if cfg.crash_forks {
        let writes = hist.iter().filter(|e| matches!(e, Ev::W { .. })).count();
        if writes < cfg.max_local_writes {
            for &n in &cfg.receivers {
                enabled.push(Ev::W { n, tx: LTx::Ins });
                if !hist.iter().any(|e| matches!(e, Ev::W { tx: LTx::Fail, .. })) {
                    enabled.push(Ev::W { n, tx: LTx::Fail });
                }
            }
        }
    }
    if cfg.sync_events {
        for n in 0..nn {
            for m in 0..nn {
                if n == m {
                    continue;
                }
                let k = ex.session_answers(n, m).len();
                if k == 0 {
                    continue;
                }
                enabled.push(Ev::S { n, m, loss: Loss::None, batch: true });
                if cfg.unbatched_sync && k > 1 {
                    enabled.push(Ev::S { n, m, loss: Loss::None, batch: false });
                }
                if cfg.lossy {
                    for i in 0..k {
                        if k > 1 {
                            enabled.push(Ev::S { n, m, loss: Loss::Drop(i), batch: true });
                        }
                        if i >= 1 {
                            enabled.push(Ev::S { n, m, loss: Loss::Prefix(i), batch: true });
                        }
                    }
                }
            }
        }
    }
    let nontrivial = ex.models.iter().any(|m| m.actors.values().any(|a| a.recv.keys().any(|v| !a.held.contains(v))))
        || hist.iter().any(|e| matches!(e, Ev::X { .. }));
    if cfg.closure {
        let r = ref_for(w, &ex.ledger, refcache);
        ex.closure(cfg, &r);
    }
    let mut violations: Vec<(String, Value)> = vec![];
    for (k, d) in ex.viol.drain(..) {
        let pid = k.split(':').next().unwrap_or("");
        if pid == "ALL" || cfg.props.contains(pid) {
            if !violations.iter().any(|(k2, _)| *k2 == k) {
                violations.push((k, d));
            }
        }
    }
    Outcome { digest: d, enabled, violations, outcome, nontrivial }
}

// ------------------------------------------------------------------------------------------
// families
// ------------------------------------------------------------------------------------------

fn scripts_for(prop: &str, tier: Tier) -> Vec<(&'static str, Script, usize)> {
    use Step::*;
    use Tx::*;
    // (name, script, nodes)
    let single_two_row: Script = vec![W(0, InsK1K2)];
    let overwrite: Script = vec![W(0, InsK1), W(0, UpdA)];
    let overwrite_all: Script = vec![W(0, InsK1), W(0, UpdA), W(0, UpdB)];
    let delete: Script = vec![W(0, InsK1), W(0, DelK1)];
    let conflict: Script = vec![W(0, InsK1), W(1, InsK1)];
    let relay_overwrite: Script = vec![W(0, InsK1), G(1, 0), W(1, UpdA)];
    let two_row_then_upd: Script = vec![W(0, InsK1K2), W(0, UpdA)];
    let conflict_del: Script = vec![W(0, InsK1), G(1, 0), W(1, DelK1), W(0, UpdB)];
    let reinsert: Script = vec![W(0, InsK1), W(0, DelK1), W(0, InsK1)];
    match (prop, tier) {
        ("C03", Tier::Quick) => vec![("single_two_row", single_two_row, 2), ("overwrite", overwrite, 2), ("overwrite_all", overwrite_all, 2)],
        ("C03", Tier::Thorough) => vec![
            ("single_two_row", single_two_row, 2),
            ("overwrite", overwrite, 2),
            ("two_row_then_upd", two_row_then_upd, 2),
            ("relay_overwrite", relay_overwrite, 3),
            ("delete", delete, 2),
        ],
        ("C05", Tier::Quick) => vec![("overwrite", overwrite, 2), ("two_row_then_upd", two_row_then_upd, 2), ("overwrite_all", overwrite_all, 2), ("delete", delete, 2)],
        ("C05", Tier::Thorough) => vec![
            ("overwrite", overwrite, 2),
            ("two_row_then_upd", two_row_then_upd, 2),
            ("overwrite_all", overwrite_all, 2),
            ("delete", delete, 2),
            ("relay_overwrite", relay_overwrite, 3),
            ("reinsert", reinsert, 2),
        ],
        ("C01", Tier::Quick) => vec![("conflict", conflict, 2), ("overwrite_all", overwrite_all, 2), ("relay_overwrite", relay_overwrite, 3)],
        ("C01", Tier::Thorough) => vec![
            ("conflict", conflict, 2),
            ("two_row_then_upd", two_row_then_upd, 3),
            ("relay_overwrite", relay_overwrite, 3),
            ("conflict_del", conflict_del, 3),
            ("overwrite_all", overwrite_all, 3),
            ("reinsert", reinsert, 2),
            ("delete", delete, 3),
        ],
        ("C06", Tier::Quick) => vec![("overwrite", overwrite, 2), ("single_two_row", single_two_row, 2), ("conflict", conflict, 2)],
        ("C06", Tier::Thorough) => vec![("overwrite", overwrite, 2), ("single_two_row", single_two_row, 2), ("conflict", conflict, 2), ("two_row_then_upd", two_row_then_upd, 2)],
        _ => vec![],
    }
}

fn cfg_for(prop: &'static str, tier: Tier, nodes: usize) -> Cfg {
    let mut props = BTreeSet::new();
    props.insert(prop);
    let receivers: Vec<usize> = (1..nodes).collect();
    match prop {
        "C03" => Cfg { nodes, props, closure: true, allow_crash: false, redeliver_held: tier == Tier::Thorough, batches: true, lossy: false,
                       sync_events: nodes > 2, unbatched_sync: false, receivers: vec![1], server_oracle: false, twin_off: false, crash_forks: false, torn_cuts: false, max_local_writes: 0, family: 0 },
        "C05" => Cfg { nodes, props, closure: false, allow_crash: false, redeliver_held: false, batches: false, lossy: false,
                       sync_events: true, unbatched_sync: false, receivers: vec![1], server_oracle: true, twin_off: false, crash_forks: false, torn_cuts: false, max_local_writes: 0, family: 0 },
        "C01" => Cfg { nodes, props, closure: true, allow_crash: false, redeliver_held: false, batches: tier == Tier::Thorough, lossy: true,
                       sync_events: true, unbatched_sync: tier == Tier::Thorough, receivers: if nodes == 2 { vec![0, 1] } else { receivers }, server_oracle: false, twin_off: false, crash_forks: false, torn_cuts: false, max_local_writes: 0, family: 0 },
        "C06" => Cfg { nodes, props, closure: true, allow_crash: true, redeliver_held: false, batches: false, lossy: false,
                       sync_events: false, unbatched_sync: false, receivers: vec![1], server_oracle: false, twin_off: false, crash_forks: true, torn_cuts: tier == Tier::Thorough, max_local_writes: tier.pick(1, 2) as usize, family: 0 },
        _ => machinery_error("repl: unknown property"),
    }
}

fn main() {
    let cli = parse_cli();
    let prop: &'static str = match cli.props.first().map(|s| s.as_str()) {
        Some("C01") => "C01",
        Some("C03") => "C03",
        Some("C05") => "C05",
        Some("C06") => "C06",
        _ => machinery_error("repl: --prop C01|C03|C05|C06"),
    };
    sweep_stale_scratch();
    let rep = Report::new(prop, cli.tier, cli.seed);
    let w = World::new();

    if let Some(p) = &cli.replay {
        let r = load_replay(p);
        let script: Script = serde_json::from_value(r["details"]["script"].clone()).or_else(|_| serde_json::from_value(r["script"].clone())).unwrap();
        let hist: Vec<Ev> = serde_json::from_value(r["history"].clone()).unwrap();
        let nodes = r["details"]["nodes"].as_u64().unwrap_or(3) as usize;
        let mut cfg = cfg_for(prop, Tier::Thorough, nodes);
        cfg.server_oracle = prop == "C05";
        let mut rc: RefCache = RefCache::new();
        // replay every prefix so the step that first violates is visible
        let mut any = false;
        for k in 0..=hist.len() {
            let o = run_history(&w, &cfg, &script, &hist[..k], &mut rc);
            for (key, d) in &o.violations {
                println!("prefix {k}: {key}: {d}");
                any = true;
            }
        }
        std::process::exit(if any { 1 } else { 0 });
    }

    let t0 = Instant::now();
    let fams = scripts_for(prop, cli.tier);
    // families run in parallel threads (each execution owns its nodes and runtimes), so each gets
    // the whole time budget; the machine-wide execution ceiling still applies
    let par = fams.len().min(6) as u64;
    // quick tier: bounded by executions per script family (deterministic work), the wall-clock cap is
    // only a safety net several times larger than the idle run time
    let quick_execs: u64 = match prop {
        "C01" => 700,
        "C06" => 350,
        _ => 2400,
    };
    let per_script_execs: u64 = cli.tier.pick(quick_execs, 60_000 * par / fams.len() as u64);
    let per_script_secs: u64 = cli.tier.pick(240, 1500 * par / fams.len() as u64);
    let mut fam_stats = vec![];
    let mut all_exhaustive = true;
    let tier = cli.tier;
    let results: Vec<(&'static str, Script, usize, BfsStats)> = std::thread::scope(|sc| {
        let mut hs = vec![];
        let sem = std::sync::Arc::new((std::sync::Mutex::new(par), std::sync::Condvar::new()));
        for (fi, (name, script, nodes)) in fams.into_iter().enumerate() {
            let rep = &rep;
            let w = &w;
            let sem = sem.clone();
            hs.push(sc.spawn(move || {
                {
                    let mut g = sem.0.lock().unwrap();
                    while *g == 0 {
                        g = sem.1.wait(g).unwrap();
                    }
                    *g -= 1;
                }
                let mut cfg = cfg_for(prop, tier, nodes);
                cfg.family = fi as u64;
                let mut rc: RefCache = RefCache::new();
                let lim = Limits {
                    max_depth: tier.pick(8, 10),
                    max_execs: per_script_execs,
                    deadline: Some(Instant::now() + Duration::from_secs(per_script_secs)),
                };
                let script2 = script.clone();
                let stats = replay_bfs(rep, vec![vec![]], &lim, |h| {
                    let mut o = run_history(w, &cfg, &script2, h, &mut rc);
                    for v in o.violations.iter_mut() {
                        v.1 = json!({"script": script2, "script_name": name, "nodes": nodes, "d": v.1});
                    }
                    o
                });
                {
                    let mut g = sem.0.lock().unwrap();
                    *g += 1;
                    sem.1.notify_one();
                }
                (name, script, nodes, stats)
            }));
        }
        hs.into_iter().map(|h| h.join().unwrap_or_else(|_| machinery_error("repl: a family thread panicked"))).collect()
    });
    for (name, script, nodes, stats) in results {
        record_stats(&rep, &format!("{name}_"), &stats);
        if stats.capped.is_some() {
            all_exhaustive = false;
        }
        fam_stats.push(json!({"script": name, "steps": format!("{script:?}"), "nodes": nodes, "states": stats.states, "transitions": stats.transitions,
            "depth_completed": if stats.depth_completed == usize::MAX { json!("fix-point") } else { json!(stats.depth_completed) }, "cap": stats.capped, "frontier_left": stats.frontier_left}));
    }
    rep.set("families", json!(fam_stats));
    if prop == "C03" {
        rep.set("differential_twins_compared", TWIN[0].load(std::sync::atomic::Ordering::Relaxed));
        rep.set("differential_twins_skipped_sync_supplied", TWIN[1].load(std::sync::atomic::Ordering::Relaxed));
    }
    if prop == "C05" {
        let g = |i: usize| I4[i].load(std::sync::atomic::Ordering::Relaxed);
        rep.set("server_requests_judged", g(4));
        rep.set("server_version_cases", json!({"needed_must_be_silent": g(0), "live_rows_must_tile": g(1), "buffered_must_send_stored": g(2), "held_empty_must_declare_empty": g(3)}));
        if g(1) == 0 || g(2) == 0 || g(3) == 0 || g(0) == 0 {
            rep.set("vacuity_warning", "some server case class was never reached");
        }
    }
    if prop == "C06" {
        let g = |i: usize| FORKS[i].load(std::sync::atomic::Ordering::Relaxed);
        rep.set("crash_forks", json!({"inside_first_transaction": g(Cut::Before as usize), "after_inner_commit": g(Cut::Inner as usize), "after_last_commit": g(Cut::Final as usize),
            "restart": "real start_with_config on db + WAL prefix"}));
        if g(Cut::Final as usize) == 0 {
            machinery_error("C06: no crash fork was evaluated");
        }
    }
    rep.set("exhaustive", all_exhaustive);
    rep.set("traces_validated_against_impl", rep.get("transitions"));
    rep.set("wall_budget_s", t0.elapsed().as_secs());
    rep.assume("every transition is executed by the real code (api_v1_transactions, process_multiple_changes, process_fully_buffered_changes, clear_buffered_meta_loop, generate_sync, compute_available_needs, process_sync/handle_need) on fresh real nodes; the QUIC transport, handle_changes queueing and parallel_sync's request de-duplication are bypassed");
    rep.assume("cr-sqlite's merge is trusted: the reference merge is a fresh real node receiving every acknowledged version complete and in order");
    rep.require_nontrivial(5, "a state is non-trivial when some version is partially received at some node, or the history contains a crash");
    rep.finish();
}

//! E2 `booked` (C02): advertised sync state is an exact, durable summary.
//!  (a) pure layer: BFS to fix-point over bookkeeping states, every non-empty version set as an
//!      insertion through snapshot -> insert_db(conn) -> commit_snapshot on a real connection.
//!  (b) node layer: replay-BFS over a real node receiving complete / partial / empty changesets
//!      through process_multiple_changes (+ apply / clear steps), event-based set-model oracle.

use klukai_types::actor::ActorId;
use klukai_types::agent::{BookedVersions, migrate};
use klukai_types::api::Statement;
use klukai_types::base::CrsqlDbVersion;
use klukai_types::broadcast::{ChangeV1, Changeset};
use klukai_types::sqlite::{CrConn, setup_conn};
use rangemap::RangeInclusiveSet;
use rayon::prelude::*;
use rusqlite::Connection;
use serde::{Deserialize, Serialize};
use serde_json::json;
use std::cell::RefCell;
use std::collections::{BTreeSet, HashMap};
use std::sync::Arc;
use std::time::{Duration, Instant};
use vh::explore::*;
use vh::model::*;
use vh::vcore::*;
use vh::vnode::*;

fn main() {
    let cli = parse_cli();
    let rep = Report::new("C02", cli.tier, cli.seed);
    sweep_stale_scratch();
    if let Some(p) = &cli.replay {
        let r = load_replay(p);
        if r.get("history").is_some() {
            let hist: Vec<Ev> = serde_json::from_value(r["history"].clone()).unwrap();
            let w = World::build(3);
            let o = w.run(&hist);
            for (k, d) in &o.violations {
                println!("reproduced {k}: {d}");
            }
            std::process::exit(if o.violations.is_empty() { 0 } else { 1 });
        } else {
            let held: u32 = r["held"].as_u64().unwrap() as u32;
            let op: u32 = r["op"].as_u64().unwrap() as u32;
            let v = r["universe"].as_u64().unwrap() as u32;
            let res = pure_replay(v, held, op);
            println!("{res:?}");
            std::process::exit(if res.is_empty() { 0 } else { 1 });
        }
    }
    pure_layer(&rep, cli.tier);
    node_layer(&rep, cli.tier);
    rep.set("traces_validated_against_impl", rep.get("transitions"));
    rep.require_nontrivial(
        100,
        "pure layer: a transition is non-trivial when the insertion overlaps or touches an existing gap or creates one; node layer: a state in which some version is partially received",
    );
    rep.finish();
}

// ------------------------------------------------------------------------------------------
// (a) pure layer
// ------------------------------------------------------------------------------------------

thread_local! {
    static CONN: RefCell<Option<CrConn>> = const { RefCell::new(None) };
}

fn with_conn<T>(f: impl FnOnce(&Connection) -> T) -> T {
    CONN.with(|c| {
        let mut c = c.borrow_mut();
        if c.is_none() {
            let mut conn = CrConn::init(Connection::open_in_memory().unwrap()).unwrap();
            setup_conn(&conn).unwrap();
            migrate(Arc::new(uhlc::HLC::default()), &mut conn).unwrap();
            *c = Some(conn);
        }
        f(c.as_ref().unwrap())
    })
}

fn mask_to_set(m: u32) -> RangeInclusiveSet<CrsqlDbVersion> {
    let mut s = RangeInclusiveSet::new();
    for i in 0..32 {
        if m & (1 << i) != 0 {
            s.insert(CrsqlDbVersion(i as u64 + 1)..=CrsqlDbVersion(i as u64 + 1));
        }
    }
    s
}

fn actor() -> ActorId {
    ActorId::from_bytes([7; 16])
}

/// Rebuild the code-side state for a held mask by the canonical insertion (one op), then apply `op`.
/// Returns the resulting state (bv, rows) or an error class.
fn step(bv: &BookedVersions, rows: &[(u64, u64)], op: u32) -> Result<(BookedVersions, Vec<(u64, u64)>), String> {
    with_conn(|conn| {
        conn.execute("DELETE FROM __corro_bookkeeping_gaps", []).unwrap();
        for (s, e) in rows {
            conn.execute(
                "INSERT INTO __corro_bookkeeping_gaps VALUES (?, ?, ?)",
                rusqlite::params![actor(), s, e],
            )
            .unwrap();
        }
        let mut bv2 = bv.clone();
        let mut snap = bv2.snapshot();
        let r = snap.insert_db(conn, mask_to_set(op));
        match r {
            Ok(()) => {
                bv2.commit_snapshot(snap);
            }
            Err(e) => {
                // drain to avoid the drop assertions
                let mut dummy = BookedVersions::new(actor());
                dummy.commit_snapshot(snap);
                return Err(format!("insert_db error: {e}"));
            }
        }
        let rows2: Vec<(u64, u64)> = conn
            .prepare("SELECT start, end FROM __corro_bookkeeping_gaps WHERE actor_id = ? ORDER BY start")
            .unwrap()
            .query_map([actor()], |r| Ok((r.get(0)?, r.get(1)?)))
            .unwrap()
            .collect::<rusqlite::Result<_>>()
            .unwrap();
        Ok((bv2, rows2))
    })
}

fn check_pure(held: u32, bv: &BookedVersions, rows: &[(u64, u64)], universe: u32) -> Option<(String, String)> {
    let max = 32 - held.leading_zeros(); // highest held version
    let want_needed: BTreeSet<u64> = (1..=max as u64).filter(|v| held & (1 << (v - 1)) == 0).collect();
    let got_needed: BTreeSet<u64> = bv.needed().iter().flat_map(|r| r.start().0..=r.end().0).collect();
    if bv.last().map(|v| v.0).unwrap_or(0) != max as u64 {
        return Some(("head-wrong".into(), format!("head {:?} want {max}", bv.last())));
    }
    if got_needed != want_needed {
        return Some(("needed-set-wrong".into(), format!("needed {got_needed:?} want {want_needed:?}")));
    }
    // rows: maximal runs of the needed set
    let mut runs = vec![];
    let mut it = want_needed.iter().copied().peekable();
    while let Some(s) = it.next() {
        let mut e = s;
        while it.peek() == Some(&(e + 1)) {
            e = it.next().unwrap();
        }
        runs.push((s, e));
    }
    if rows != runs.as_slice() {
        return Some(("gap-rows-wrong".into(), format!("rows {rows:?} want {runs:?}")));
    }
    for v in 1..=universe as u64 + 1 {
        let h = v <= 32 && held & (1 << (v - 1)) != 0;
        if bv.contains_version(&CrsqlDbVersion(v)) != h {
            return Some(("contains-version-wrong".into(), format!("version {v}: contains={} held={h}", !h)));
        }
    }
    // reload: needed equal (the head is not persisted by this layer)
    let re = with_conn(|c| {
        c.execute("DELETE FROM __corro_bookkeeping_gaps", []).unwrap();
        for (s, e) in rows {
            c.execute("INSERT INTO __corro_bookkeeping_gaps VALUES (?, ?, ?)", rusqlite::params![actor(), s, e]).unwrap();
        }
        BookedVersions::from_conn(c, actor())
    });
    match re {
        Err(e) => return Some(("reload-failed".into(), e.to_string())),
        Ok(re) => {
            if re.needed() != bv.needed() {
                return Some(("reload-needed-differs".into(), format!("{:?} vs {:?}", re.needed(), bv.needed())));
            }
        }
    }
    None
}

fn pure_replay(universe: u32, held: u32, op: u32) -> Vec<(String, String)> {
    // reach `held` by one insertion from empty (states are determined by the held set when the
    // code is right; the replay file also carries the real predecessor for the record)
    let bv0 = BookedVersions::new(actor());
    let mut out = vec![];
    let (bv, rows) = if held == 0 { (bv0, vec![]) } else { step(&bv0, &[], held).unwrap() };
    match step(&bv, &rows, op) {
        Err(e) => out.push(("insert_db-error".to_string(), e)),
        Ok((bv2, rows2)) => {
            if let Some(x) = check_pure(held | op, &bv2, &rows2, universe) {
                out.push(x);
            }
        }
    }
    out
}

fn pure_layer(rep: &Report, tier: Tier) {
    quiet_panics();
    let universe: u32 = tier.pick(8, 11);
    let nops = (1u32 << universe) - 1;
    // state key: (held mask, needed ranges, max, rows)
    type Key = (u32, Vec<(u64, u64)>, Option<u64>, Vec<(u64, u64)>);
    let key = |held: u32, bv: &BookedVersions, rows: &[(u64, u64)]| -> Key {
        (
            held,
            bv.needed().iter().map(|r| (r.start().0, r.end().0)).collect(),
            bv.last().map(|v| v.0),
            rows.to_vec(),
        )
    };
    let mut seen: HashMap<Key, ()> = HashMap::new();
    let bv0 = BookedVersions::new(actor());
    seen.insert(key(0, &bv0, &[]), ());
    let mut frontier = vec![(0u32, bv0, Vec::<(u64, u64)>::new())];
    let mut transitions = 0u64;
    let mut levels = 0;
    while !frontier.is_empty() {
        levels += 1;
        let results: Vec<Vec<(u32, BookedVersions, Vec<(u64, u64)>)>> = frontier
            .par_iter()
            .map(|(held, bv, rows)| {
                let mut out = vec![];
                let mut nt = 0u64;
                for op in 1..=nops {
                    let r = catch(std::panic::AssertUnwindSafe(|| step(bv, rows, op)));
                    let replay = || json!({"universe": universe, "held": held, "op": op, "pred_needed": format!("{:?}", bv.needed()), "pred_rows": rows});
                    match r {
                        Err(p) => rep.violation("bookkeeping:panic", json!({"case": replay(), "panic": p})),
                        Ok(Err(e)) => rep.violation("bookkeeping:insert_db-error", json!({"case": replay(), "err": e})),
                        Ok(Ok((bv2, rows2))) => {
                            let h2 = held | op;
                            if let Some((k, m)) = check_pure(h2, &bv2, &rows2, universe) {
                                let mut c = replay();
                                c["msg"] = json!(m);
                                rep.violation(&format!("bookkeeping:{k}"), c);
                            }
                            // non-trivial: op touches or creates a gap
                            let max = 32 - held.leading_zeros();
                            let needed_mask = (((1u64 << max) - 1) as u32) & !held;
                            let touches = (op & needed_mask) != 0 || (op >> max) > 1 || ((op << 1 | op >> 1) & needed_mask) != 0;
                            if touches {
                                nt += 1;
                            }
                            out.push((h2, bv2, rows2));
                        }
                    }
                }
                rep.nontrivial_distinct_by_construction(nt);
                out
            })
            .collect();
        transitions += frontier.len() as u64 * nops as u64;
        let mut next = vec![];
        for v in results {
            for (h, bv, rows) in v {
                let k = key(h, &bv, &rows);
                if seen.insert(k, ()).is_none() {
                    rep.outcome(digest(&(h, rows.clone())));
                    next.push((h, bv, rows));
                }
            }
        }
        frontier = next;
    }
    rep.add("states", seen.len() as u64);
    rep.add("transitions", transitions);
    rep.set("pure_layer", json!({"universe": universe, "ops_per_state": nops, "states": seen.len(), "transitions": transitions, "bfs_levels": levels, "fix_point": true}));
    rep.sample(json!({"pure_layer_case": {"held_mask": "0b00101", "op_mask": "0b10010", "meaning": "insert versions {2,5} into a state holding {1,3}"}}));
}

// ------------------------------------------------------------------------------------------
// (b) node layer
// ------------------------------------------------------------------------------------------

#[derive(Debug, Clone, Serialize, Deserialize, PartialEq)]
enum Ev {
    /// complete version v
    C(u64),
    /// chunk i..=j of version v
    P(u64, u64, u64),
    /// empty lo..=hi
    E(u64, u64),
    /// batch of two deliveries
    B(Box<Ev>, Box<Ev>),
    /// apply one pending
    A,
    /// clear one pending
    K,
}

struct World {
    tpl_recv: Template,
    origin: ActorId,
    /// real broadcast changesets of versions 1..=V (complete, 3 cells each)
    ledger: Vec<ChangeV1>,
    v: u64,
}

const SCHEMA: &str = "CREATE TABLE t (id INTEGER PRIMARY KEY NOT NULL, a TEXT NOT NULL DEFAULT '', b TEXT NOT NULL DEFAULT '', c TEXT NOT NULL DEFAULT '');";

impl World {
    fn build(v: u64) -> World {
        let tpl_w = Template::build(0, SCHEMA);
        let tpl_recv = Template::build(1, SCHEMA);
        let rt = new_runtime(2);
        let s = Scratch::new("b2w");
        let ledger = rt.block_on(async {
            let p = tpl_w.instantiate(&s.path().join("w"));
            let mut w = Node::open(&p, NodeOpts::default()).await;
            let mut ledger = vec![];
            for i in 1..=v {
                let (st, body, bc) = w
                    .write(vec![Statement::Simple(format!("INSERT INTO t (id,a,b,c) VALUES ({i},'a{i}','b{i}','c{i}')"))], None)
                    .await;
                assert_eq!(st, 200);
                assert_eq!(body.version, Some(i));
                assert_eq!(bc.len(), 1);
                ledger.push(bc[0].clone());
            }
            ledger
        });
        World { tpl_recv, origin: site_id(0), ledger, v }
    }

    fn change(&self, ev: &Ev) -> Vec<ChangeV1> {
        match ev {
            Ev::C(v) => vec![self.ledger[(*v - 1) as usize].clone()],
            Ev::P(v, i, j) => {
                let full = &self.ledger[(*v - 1) as usize];
                if let Changeset::Full { version, changes, last_seq, ts, .. } = &full.changeset {
                    vec![vh::vnode::full(
                        self.origin,
                        version.0,
                        changes.iter().filter(|c| c.seq.0 >= *i && c.seq.0 <= *j).cloned().collect(),
                        *i..=*j,
                        last_seq.0,
                        *ts,
                    )]
                } else {
                    unreachable!()
                }
            }
            Ev::E(lo, hi) => vec![empty(self.origin, *lo..=*hi)],
            Ev::B(a, b) => {
                let mut x = self.change(a);
                x.extend(self.change(b));
                x
            }
            Ev::A | Ev::K => vec![],
        }
    }

    fn alphabet(&self, batches: bool) -> Vec<Ev> {
        let mut out = vec![];
        for v in 1..=self.v {
            out.push(Ev::C(v));
            for i in 0..=2 {
                for j in i..=2 {
                    if !(i == 0 && j == 2) {
                        out.push(Ev::P(v, i, j));
                    }
                }
            }
        }
        for lo in 1..=self.v {
            for hi in lo..=self.v {
                out.push(Ev::E(lo, hi));
            }
        }
        if batches {
            // curated collisions: two chunks of one version (both orders), chunk + complete of the
            // same version (both orders), empty + chunk of the same version, two different versions
            let v = self.v.min(2);
            let p = |a, b, c| Box::new(Ev::P(a, b, c));
            out.push(Ev::B(p(1, 0, 0), p(1, 1, 2)));
            out.push(Ev::B(p(1, 1, 2), p(1, 0, 0)));
            out.push(Ev::B(p(1, 0, 1), p(1, 1, 2)));
            out.push(Ev::B(p(1, 0, 0), Box::new(Ev::C(1))));
            out.push(Ev::B(Box::new(Ev::C(1)), p(1, 0, 0)));
            out.push(Ev::B(Box::new(Ev::E(1, 1)), p(1, 0, 0)));
            out.push(Ev::B(p(1, 0, 0), Box::new(Ev::E(1, 1))));
            out.push(Ev::B(p(v, 2, 2), p(1, 0, 0)));
            out.push(Ev::B(Box::new(Ev::C(v)), p(1, 1, 1)));
        }
        out
    }

    fn run(&self, hist: &[Ev]) -> Outcome<Ev> {
        self.run_opt(hist, true)
    }

    fn run_opt(&self, hist: &[Ev], batches: bool) -> Outcome<Ev> {
        let rt = new_runtime(2);
        let s = Scratch::new("b2");
        let out = rt.block_on(async {
            let p = self.tpl_recv.instantiate(&s.path().join("r"));
            let mut n = Node::open(&p, NodeOpts::default()).await;
            let own = n.actor_id();
            let mut model = NodeModel::default();
            let mut violations = vec![];
            for (k, ev) in hist.iter().enumerate() {
                let last = k + 1 == hist.len();
                match ev {
                    Ev::A => {
                        if let Some((a, v, r)) = n.apply_one().await {
                            if r.is_ok() {
                                model.on_apply(a, v.0);
                            }
                        }
                    }
                    Ev::K => {
                        n.clear_one().await;
                    }
                    other => {
                        let batch = self.change(other);
                        match n.deliver(batch.clone()).await {
                            Ok(()) => {
                                model.on_batch(own, &batch);
                            }
                            Err(e) => {
                                if last {
                                    violations.push(("C02:process_multiple_changes-error".to_string(), json!({"err": e})));
                                }
                            }
                        }
                    }
                }
                if last {
                    let mut pc = n.pending_clear();
                    violations.extend(check_sync_state_with(&n, &model, &format!("step {k}"), &mut pc).await);
                }
            }
            // digest: in-memory view + bookkeeping tables + pending queues + table rows
            let view = n.booked_view().await;
            let tables = n
                .read(|c| {
                    (
                        dump_query(c, "SELECT hex(actor_id), start, end FROM __corro_bookkeeping_gaps ORDER BY 1,2"),
                        dump_query(c, "SELECT hex(site_id), db_version, start_seq, end_seq, last_seq FROM __corro_seq_bookkeeping ORDER BY 1,2,3"),
                        dump_query(c, "SELECT hex(site_id), db_version, seq FROM __corro_buffered_changes ORDER BY 1,2,3"),
                        dump_query(c, "SELECT * FROM t ORDER BY id"),
                        dump_query(c, "SELECT hex(site_id), db_version FROM crsql_db_versions ORDER BY 1"),
                    )
                })
                .await;
            let pa = n.pending_apply();
            let pc = n.pending_clear();
            let d = digest(&(format!("{view:?}"), &tables, format!("{pa:?}"), format!("{pc:?}"), &model));
            let mut enabled = self.alphabet(batches);
            if !pa.is_empty() {
                enabled.push(Ev::A);
            }
            if !pc.is_empty() {
                enabled.push(Ev::K);
            }
            let nontrivial = model.actors.values().any(|m| !m.recv.is_empty());
            Outcome {
                digest: d,
                enabled,
                violations,
                outcome: digest(&(format!("{view:?}"), &tables.0, &tables.1)),
                nontrivial,
            }
        });
        drop(rt);
        out
    }
}

fn node_layer(rep: &Report, tier: Tier) {
    let t0 = Instant::now();
    // family 1: V=2 versions with batches, to fix-point or cap
    let cap_s = tier.pick(240, 900);
    let w = World::build(tier.pick(2, 3));
    let lim = Limits { max_depth: tier.pick(3, 6), max_execs: tier.pick(2500, 150_000), deadline: Some(t0 + Duration::from_secs(cap_s)) };
    let stats = replay_bfs(rep, vec![vec![]], &lim, |h| w.run(h));
    record_stats(rep, "node_layer_", &stats);
    rep.set("node_layer", json!({"versions": w.v, "last_seq": 2, "alphabet": w.alphabet(true).len() + 2, "states": stats.states,
        "transitions": stats.transitions, "depth_completed": if stats.depth_completed == usize::MAX { json!("fix-point") } else { json!(stats.depth_completed) },
        "cap": stats.capped, "frontier_left_when_capped": stats.frontier_left}));
    if rep.get("exhaustive") == 0 && stats.capped.is_none() {
        rep.set("exhaustive", true);
    }
    rep.assume("a fully buffered but not yet applied version counts as durably stored: it may be advertised as held or as partial with no missing ranges");
    rep.assume("versions of the origin are 3-cell inserts on distinct keys (no overwrites between versions); overwrites are the replication engine's (C01/C03/C05) business");
}

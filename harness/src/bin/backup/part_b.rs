//! C19 part B: a reader in another process while `sqlite3_restore::restore` replaces a live
//! database. The restore runs in this process, stopped at the scheduling points between its steps
//! (`restore.step` hooks); the reader is a child process (POSIX locks are per process) that executes
//! its program one step at a time on command. Every placement of the reader's steps between the
//! restore's steps with at most `b` preemptions is one schedule.

use serde_json::{Value, json};
use std::cell::RefCell;
use std::io::{BufRead, BufReader, Write};
use std::path::{Path, PathBuf};
use std::process::{Child, ChildStdin, Command, Stdio};
use std::time::{Duration, Instant};
use vh::vcore::*;
use vh::vnode::Scratch;

// ------------------------------------------------------------------------------------------
// the reader process
// ------------------------------------------------------------------------------------------

/// `backup --reader`: commands on stdin, one JSON answer per line on stdout.
pub fn reader_main() -> ! {
    let stdin = std::io::stdin();
    let mut conn: Option<rusqlite::Connection> = None;
    let mut out = std::io::stdout();
    for line in stdin.lock().lines() {
        let line = match line {
            Ok(l) => l,
            Err(_) => break,
        };
        let mut parts = line.splitn(2, ' ');
        let cmd = parts.next().unwrap_or("");
        let arg = parts.next().unwrap_or("");
        let err = |e: rusqlite::Error| -> Value {
            let code = match &e {
                rusqlite::Error::SqliteFailure(f, _) => format!("{:?}", f.code),
                _ => "Other".into(),
            };
            json!({"ok": false, "code": code, "err": e.to_string()})
        };
        let ans: Value = match cmd {
            "open" => match rusqlite::Connection::open_with_flags(arg, rusqlite::OpenFlags::SQLITE_OPEN_READ_WRITE | rusqlite::OpenFlags::SQLITE_OPEN_NO_MUTEX) {
                Ok(c) => {
                    let _ = c.busy_timeout(Duration::from_millis(0));
                    conn = Some(c);
                    json!({"ok": true})
                }
                Err(e) => err(e),
            },
            "begin" => match conn.as_ref() {
                Some(c) => match c.execute_batch("BEGIN").and_then(|_| c.query_row("SELECT count(*) FROM t", [], |r| r.get::<_, i64>(0))) {
                    Ok(n) => json!({"ok": true, "count": n}),
                    Err(e) => {
                        let _ = c.execute_batch("ROLLBACK");
                        err(e)
                    }
                },
                None => json!({"ok": false, "code": "NoConn"}),
            },
            "read" => match conn.as_ref() {
                Some(c) => {
                    let rows: Result<(i64, i64, String), rusqlite::Error> = (|| {
                        let mut st = c.prepare("SELECT id, tag FROM t ORDER BY id")?;
                        let mut n = 0i64;
                        let mut sum = 0i64;
                        let mut tags = std::collections::BTreeSet::new();
                        let mut rows = st.query([])?;
                        while let Some(r) = rows.next()? {
                            n += 1;
                            sum += r.get::<_, i64>(0)?;
                            tags.insert(r.get::<_, String>(1)?);
                        }
                        Ok((n, sum, tags.into_iter().collect::<Vec<_>>().join(",")))
                    })();
                    match rows {
                        Ok((n, sum, tags)) => {
                            let integ: Result<String, _> = c.query_row("PRAGMA integrity_check", [], |r| r.get(0));
                            match integ {
                                Ok(s) => json!({"ok": true, "count": n, "sum": sum, "tags": tags, "integrity": s}),
                                Err(e) => {
                                    let mut v = err(e);
                                    v["after_rows"] = json!({"count": n, "sum": sum, "tags": tags});
                                    v
                                }
                            }
                        }
                        Err(e) => err(e),
                    }
                }
                None => json!({"ok": false, "code": "NoConn"}),
            },
            "commit" => match conn.as_ref() {
                Some(c) => match c.execute_batch("COMMIT") {
                    Ok(()) => json!({"ok": true}),
                    Err(e) => err(e),
                },
                None => json!({"ok": false, "code": "NoConn"}),
            },
            "close" => {
                conn = None;
                json!({"ok": true})
            }
            "probe" => {
                // which of SQLite's lock bytes would a reader get a shared lock on right now?
                // (F_GETLK asks without taking anything; this process holds no lock on these files)
                use std::os::fd::AsRawFd;
                let probe_file = |path: &str, bytes: &[(i64, i64, &str)]| -> Vec<String> {
                    let mut free = vec![];
                    if let Ok(f) = std::fs::OpenOptions::new().read(true).write(true).open(path) {
                        for (start, len, name) in bytes {
                            let mut fl: libc::flock = unsafe { std::mem::zeroed() };
                            fl.l_type = libc::F_RDLCK as i16;
                            fl.l_whence = libc::SEEK_SET as i16;
                            fl.l_start = *start;
                            fl.l_len = *len;
                            let r = unsafe { libc::fcntl(f.as_raw_fd(), libc::F_GETLK, &mut fl) };
                            if r == 0 && fl.l_type == libc::F_UNLCK as i16 {
                                free.push(name.to_string());
                            }
                        }
                    } else {
                        free.push(format!("cannot-open:{path}"));
                    }
                    free
                };
                let db_free = probe_file(arg, &[(0x40000000, 1, "PENDING"), (0x40000002, 510, "SHARED")]);
                let shm_free = if std::path::Path::new(&format!("{arg}-shm")).exists() {
                    probe_file(&format!("{arg}-shm"), &[(120, 1, "WRITE"), (121, 1, "CKPT"), (122, 1, "RECOVER"), (123, 1, "READ0"), (124, 1, "READ1"), (125, 1, "READ2"), (126, 1, "READ3"), (127, 1, "READ4")])
                } else {
                    vec!["no-shm".to_string()]
                };
                json!({"ok": true, "db_free": db_free, "shm_free": shm_free})
            }
            "quit" => break,
            _ => json!({"ok": false, "code": "BadCommand"}),
        };
        let _ = writeln!(out, "{ans}");
        let _ = out.flush();
    }
    std::process::exit(0);
}

pub struct Reader {
    child: Child,
    stdin: ChildStdin,
    rx: std::sync::mpsc::Receiver<String>,
    /// the reader was killed because a step did not return (SQLite retries a WAL read lock for
    /// about ten seconds before giving up); every later step of that reader is refused
    dead: bool,
}

impl Reader {
    pub fn spawn() -> Reader {
        let exe = std::env::current_exe().unwrap();
        let mut child = Command::new(exe).arg("--reader").stdin(Stdio::piped()).stdout(Stdio::piped()).stderr(Stdio::null()).spawn().expect("spawn reader");
        let stdin = child.stdin.take().unwrap();
        let mut stdout = BufReader::new(child.stdout.take().unwrap());
        let (tx, rx) = std::sync::mpsc::channel();
        std::thread::spawn(move || {
            loop {
                let mut line = String::new();
                match stdout.read_line(&mut line) {
                    Ok(0) | Err(_) => break,
                    Ok(_) => {
                        if tx.send(line).is_err() {
                            break;
                        }
                    }
                }
            }
        });
        Reader { child, stdin, rx, dead: false }
    }
    pub fn is_dead(&self) -> bool {
        self.dead
    }
    /// One step of the reader. A step that does not return within 250 ms is SQLite's own retry loop
    /// (it sleeps and retries a WAL read lock for up to ~10 s): the reader process is killed - it gave
    /// up, which releases whatever it held - and the step counts as refused.
    pub fn cmd(&mut self, c: &str) -> Value {
        self.cmd_within(c, Duration::from_millis(250))
    }
    /// The same with a caller-chosen patience (the checks after the restore has returned contend
    /// with nobody; a slow answer there is only a slow machine).
    pub fn cmd_within(&mut self, c: &str, patience: Duration) -> Value {
        if self.dead {
            return json!({"ok": false, "code": "ReaderGaveUp"});
        }
        if writeln!(self.stdin, "{c}").is_err() {
            machinery_error("reader process is gone");
        }
        let _ = self.stdin.flush();
        match self.rx.recv_timeout(patience) {
            Ok(line) => serde_json::from_str(&line).unwrap_or_else(|_| machinery_error("reader answered garbage")),
            Err(std::sync::mpsc::RecvTimeoutError::Timeout) => {
                let _ = self.child.kill();
                let _ = self.child.wait();
                self.dead = true;
                json!({"ok": false, "code": "StillRetryingGaveUp"})
            }
            Err(_) => machinery_error("reader process closed its output"),
        }
    }
}

impl Drop for Reader {
    fn drop(&mut self) {
        if !self.dead {
            let _ = writeln!(self.stdin, "quit");
            let _ = self.stdin.flush();
            let _ = self.child.wait();
        }
    }
}

// ------------------------------------------------------------------------------------------
// databases
// ------------------------------------------------------------------------------------------

#[derive(Clone, Copy, Debug, PartialEq, Eq, serde::Serialize, serde::Deserialize)]
pub enum DstMode {
    /// WAL mode, log holds frames that were never checkpointed
    WalFrames,
    /// WAL mode, fully checkpointed and closed (no log file)
    WalClean,
    /// rollback-journal mode
    Rollback,
}

#[derive(Clone, Copy, Debug, PartialEq, Eq, serde::Serialize, serde::Deserialize)]
pub enum NewSize {
    Smaller,
    Larger,
}

const OLD_ROWS: i64 = 200;

fn new_rows(s: NewSize) -> i64 {
    match s {
        NewSize::Smaller => 60,
        NewSize::Larger => 500,
    }
}

fn fill(c: &rusqlite::Connection, tag: &str, from: i64, to: i64) {
    let pad = "p".repeat(200);
    let tx = c.unchecked_transaction().unwrap();
    for i in from..=to {
        tx.execute("INSERT OR REPLACE INTO t (id, tag, pad) VALUES (?, ?, ?)", rusqlite::params![i, tag, pad]).unwrap();
    }
    tx.commit().unwrap();
}

pub struct Templates {
    _s: Scratch,
    pub dst: Vec<(DstMode, PathBuf)>,
    pub src: Vec<(NewSize, PathBuf)>,
}

fn wal_of(p: &Path) -> PathBuf {
    let mut w = p.to_path_buf().into_os_string();
    w.push("-wal");
    PathBuf::from(w)
}

pub fn build_templates() -> Templates {
    let s = Scratch::new("c19b");
    let mut dst = vec![];
    for mode in [DstMode::WalFrames, DstMode::WalClean, DstMode::Rollback] {
        let dir = s.path().join(format!("dst_{mode:?}"));
        std::fs::create_dir_all(&dir).unwrap();
        let p = dir.join("live.db");
        let c = rusqlite::Connection::open(&p).unwrap();
        c.execute_batch(if mode == DstMode::Rollback { "PRAGMA journal_mode = DELETE;" } else { "PRAGMA journal_mode = WAL; PRAGMA wal_autocheckpoint = 0;" }).unwrap();
        c.execute_batch("CREATE TABLE t (id INTEGER PRIMARY KEY, tag TEXT NOT NULL, pad TEXT NOT NULL);").unwrap();
        match mode {
            DstMode::WalFrames => {
                fill(&c, "old", 1, OLD_ROWS / 2);
                c.query_row("PRAGMA wal_checkpoint(TRUNCATE)", [], |_r| Ok(())).unwrap();
                fill(&c, "old", OLD_ROWS / 2 + 1, OLD_ROWS);
                // image with the frames still in the log: copy while the connection is open
                let img = dir.join("img");
                std::fs::create_dir_all(&img).unwrap();
                std::fs::copy(&p, img.join("live.db")).unwrap();
                std::fs::copy(wal_of(&p), wal_of(&img.join("live.db"))).unwrap();
                drop(c);
                dst.push((mode, img.join("live.db")));
            }
            _ => {
                fill(&c, "old", 1, OLD_ROWS);
                if mode == DstMode::WalClean {
                    c.query_row("PRAGMA wal_checkpoint(TRUNCATE)", [], |_r| Ok(())).unwrap();
                }
                drop(c);
                dst.push((mode, p));
            }
        }
    }
    let mut src = vec![];
    for size in [NewSize::Smaller, NewSize::Larger] {
        let p = s.path().join(format!("backup_{size:?}.db"));
        let c = rusqlite::Connection::open(&p).unwrap();
        // what `corrosion backup` leaves: WAL mode in the header, log truncated
        c.execute_batch("PRAGMA journal_mode = WAL; CREATE TABLE t (id INTEGER PRIMARY KEY, tag TEXT NOT NULL, pad TEXT NOT NULL);").unwrap();
        fill(&c, "new", 1001, 1000 + new_rows(size));
        c.query_row("PRAGMA wal_checkpoint(TRUNCATE)", [], |_r| Ok(())).unwrap();
        drop(c);
        src.push((size, p));
    }
    Templates { _s: s, dst, src }
}

fn instantiate(tpl: &Path, dir: &Path) -> PathBuf {
    std::fs::create_dir_all(dir).unwrap();
    let dst = dir.join("live.db");
    std::fs::copy(tpl, &dst).unwrap();
    if wal_of(tpl).exists() {
        std::fs::copy(wal_of(tpl), wal_of(&dst)).unwrap();
    }
    dst
}

// ------------------------------------------------------------------------------------------
// one schedule
// ------------------------------------------------------------------------------------------

#[derive(Clone, Copy, Debug, PartialEq, Eq, serde::Serialize, serde::Deserialize)]
pub enum RStep {
    Open,
    Begin,
    Read,
    Commit,
}

pub fn program(two_txns: bool) -> Vec<RStep> {
    let mut p = vec![RStep::Open, RStep::Begin, RStep::Read, RStep::Commit];
    if two_txns {
        p.extend([RStep::Begin, RStep::Read, RStep::Commit]);
    }
    p
}

#[derive(Clone, Debug, serde::Serialize, serde::Deserialize)]
pub struct CaseB {
    pub mode: DstMode,
    pub size: NewSize,
    pub two_txns: bool,
    /// for each reader step: the name of the restore point at which it runs ("start" = before
    /// restore is called, "mid_copy" = destination half overwritten, "end" = after restore returned)
    pub at: Vec<String>,
}

struct Ctrl {
    reader: Reader,
    db: PathBuf,
    src: PathBuf,
    prog: Vec<RStep>,
    at: Vec<String>,
    next: usize,
    log: Vec<(String, RStep, Value)>,
    points: Vec<String>,
    /// ask the reader process, at every point from `locked` on, which lock bytes it could share-lock
    probe: bool,
    probes: Vec<(String, Value)>,
}

thread_local! {
    static CTRL: RefCell<Option<Ctrl>> = const { RefCell::new(None) };
}

fn run_steps_at(c: &mut Ctrl, point: &str) {
    while c.next < c.prog.len() && c.at[c.next] == point {
        let st = c.prog[c.next];
        let cmd = match st {
            RStep::Open => format!("open {}", c.db.display()),
            RStep::Begin => "begin".to_string(),
            RStep::Read => "read".to_string(),
            RStep::Commit => "commit".to_string(),
        };
        let ans = c.reader.cmd(&cmd);
        c.log.push((point.to_string(), st, ans));
        c.next += 1;
    }
}

pub fn install_handler() {
    klukai_types::verif::set_point_handler(Some(std::sync::Arc::new(|name: &str, detail: &str| {
        if name != "restore.step" {
            return;
        }
        CTRL.with(|c| {
            let mut g = c.borrow_mut();
            let Some(c) = g.as_mut() else { return };
            c.points.push(detail.to_string());
            if c.probe && matches!(detail, "locked" | "journal_removed" | "before_copy" | "copied" | "shm_reset") {
                let a = c.reader.cmd(&format!("probe {}", c.db.display()));
                c.probes.push((detail.to_string(), a));
            }
            run_steps_at(c, detail);
            if detail == "before_copy" && c.at.iter().any(|a| a == "mid_copy") {
                // what a half-finished sequential copy leaves: the first half of the new image over
                // the old file
                let img = std::fs::read(&c.src).unwrap();
                use std::os::unix::fs::FileExt;
                let f = std::fs::OpenOptions::new().write(true).open(&c.db).unwrap();
                f.write_at(&img[..img.len() / 2], 0).unwrap();
                c.points.push("mid_copy".to_string());
                run_steps_at(c, "mid_copy");
            }
        });
    })));
}

pub struct OutB {
    pub points: Vec<String>,
    pub restore_ok: bool,
    pub violations: Vec<(String, Value)>,
    pub refused: u64,
    pub corrupt: u64,
    pub saw_old: u64,
    pub saw_new: u64,
    pub outcome: u64,
}

fn file_digest(p: &Path) -> u64 {
    digest(&std::fs::read(p).unwrap_or_default())
}

pub fn run_case_b(t: &Templates, case: &CaseB, reader: Reader, scratch: &Path) -> (OutB, Reader) {
    let tpl = &t.dst.iter().find(|d| d.0 == case.mode).unwrap().1;
    let src = t.src.iter().find(|d| d.0 == case.size).unwrap().1.clone();
    let t_case = Instant::now();
    let timing = std::env::var("VH_TIMING").is_ok();
    let dir = scratch.join("run");
    let _ = std::fs::remove_dir_all(&dir);
    let db = instantiate(tpl, &dir);
    let before = file_digest(&db);
    if timing {
        eprintln!("setup {:?}", t_case.elapsed());
    }
    let prog = program(case.two_txns);
    assert_eq!(prog.len(), case.at.len());
    CTRL.with(|c| {
        *c.borrow_mut() = Some(Ctrl { reader, db: db.clone(), src: src.clone(), prog, at: case.at.clone(), next: 0, log: vec![], points: vec![], probe: case.at.iter().all(|a| a == "end"), probes: vec![] });
    });
    CTRL.with(|c| run_steps_at(c.borrow_mut().as_mut().unwrap(), "start"));
    let res = klukai_types::sqlite3_restore::restore(&src, &db, Duration::from_millis(15));
    if timing {
        eprintln!("restore returned {:?} ok={}", t_case.elapsed(), res.is_ok());
    }
    let after_fail_digest = file_digest(&db);
    // whatever was scheduled at points the restore never reached runs now, then the rest
    let mut ctrl = CTRL.with(|c| c.borrow_mut().take().unwrap());
    while ctrl.next < ctrl.prog.len() {
        let p = ctrl.at[ctrl.next].clone();
        run_steps_at(&mut ctrl, &p);
    }
    let _ = ctrl.reader.cmd("close");
    let mut out = OutB { points: ctrl.points.clone(), restore_ok: res.is_ok(), violations: vec![], refused: 0, corrupt: 0, saw_old: 0, saw_new: 0, outcome: 0 };
    let old = (OLD_ROWS, (1..=OLD_ROWS).sum::<i64>(), "old".to_string());
    let n = new_rows(case.size);
    let new = (n, (1001..=1000 + n).sum::<i64>(), "new".to_string());
    let describe: Vec<Value> = ctrl.log.iter().map(|(p, s, a)| json!({"at": p, "step": format!("{s:?}"), "answer": a})).collect();
    for (p, st, a) in &ctrl.log {
        if a["ok"] == true {
            if *st == RStep::Read {
                let got = (a["count"].as_i64().unwrap_or(-1), a["sum"].as_i64().unwrap_or(-1), a["tags"].as_str().unwrap_or("").to_string());
                let integ = a["integrity"].as_str().unwrap_or("");
                if got == old {
                    out.saw_old += 1;
                } else if got == new {
                    out.saw_new += 1;
                } else {
                    out.violations.push(("C19:read-shows-neither-the-old-nor-the-new-database".into(), json!({"at": p, "rows": got.0, "tags": got.2, "log": describe})));
                }
                if integ != "ok" {
                    out.violations.push(("C19:successful-read-of-a-database-that-fails-its-integrity-check".into(), json!({"at": p, "integrity": integ, "log": describe})));
                }
            }
        } else {
            let code = a["code"].as_str().unwrap_or("");
            if code.contains("Corrupt") || code.contains("NotADatabase") {
                out.corrupt += 1;
            } else {
                out.refused += 1;
            }
        }
    }
    // while the restore writes (from the end of lock_all to its return) no other process may be able
    // to take a lock that permits reading pages: the shared range of the database file in rollback
    // mode, any read mark of the wal-index in WAL mode
    for (point, a) in &ctrl.probes {
        let list = |k: &str| -> Vec<String> { a[k].as_array().map(|v| v.iter().filter_map(|x| x.as_str().map(|s| s.to_string())).collect()).unwrap_or_default() };
        let db_free = list("db_free");
        let shm_free = list("shm_free");
        let wal = case.mode != DstMode::Rollback;
        let open_door: Vec<String> = if wal {
            shm_free.iter().filter(|b| b.starts_with("READ") || *b == "WRITE" || *b == "CKPT" || *b == "RECOVER" || *b == "no-shm" || b.starts_with("cannot-open")).cloned().collect()
        } else {
            db_free.iter().filter(|b| *b == "SHARED" || b.starts_with("cannot-open")).cloned().collect()
        };
        if !open_door.is_empty() {
            out.violations.push(("C19:reader-could-lock-pages-while-restore-writes".into(), json!({"at": point, "mode": case.mode, "lockable": open_door})));
            break;
        }
    }
    match &res {
        Err(_) => {
            if after_fail_digest != before {
                out.violations.push(("C19:failed-restore-changed-the-database-file".into(), json!({"err": format!("{:?}", res.as_ref().err()), "log": describe})));
            }
        }
        Ok(_) => {}
    }
    // a fresh reader afterwards: entirely new after success, entirely old after failure
    let mut rd = if ctrl.reader.is_dead() { Reader::spawn() } else { ctrl.reader };
    let long = Duration::from_secs(30);
    let _ = rd.cmd_within(&format!("open {}", db.display()), long);
    let a = rd.cmd_within("read", long);
    let _ = rd.cmd_within("close", long);
    let want = if res.is_ok() { &new } else { &old };
    let got = (a["count"].as_i64().unwrap_or(-1), a["sum"].as_i64().unwrap_or(-1), a["tags"].as_str().unwrap_or("").to_string());
    if a["ok"] != true || got != *want || a["integrity"] != "ok" {
        out.violations.push((
            if res.is_ok() { "C19:restored-database-is-not-the-backup".into() } else { "C19:database-not-intact-after-failed-restore".into() },
            json!({"answer": a, "restore": format!("{:?}", res.as_ref().map(|_| ()).map_err(|e| e.to_string())), "log": describe}),
        ));
    }
    if timing {
        eprintln!("case done {:?}", t_case.elapsed());
    }
    out.outcome = digest(&(out.restore_ok, out.refused, out.saw_old, out.saw_new, out.corrupt));
    (out, rd)
}

/// Every non-decreasing assignment of `m` steps to positions `0..k` using at most `blocks` distinct positions.
fn placements(m: usize, k: usize, blocks: usize) -> Vec<Vec<usize>> {
    fn rec(m: usize, k: usize, blocks: usize, from: usize, cur: &mut Vec<usize>, out: &mut Vec<Vec<usize>>) {
        if cur.len() == m {
            out.push(cur.clone());
            return;
        }
        let last = cur.last().copied();
        for p in from..k {
            let new_block = last != Some(p);
            let used = {
                let mut d = cur.clone();
                d.dedup();
                d.len()
            };
            if new_block && used + 1 > blocks {
                continue;
            }
            cur.push(p);
            rec(m, k, blocks, p, cur, out);
            cur.pop();
        }
    }
    let mut out = vec![];
    rec(m, k, blocks, 0, &mut vec![], &mut out);
    out
}

pub fn part_b(rep: &Report, tier: Tier, deadline: Instant) -> Value {
    install_handler();
    let t = build_templates();
    let blocks = tier.pick(2, 3) as usize;
    let mut cases: Vec<CaseB> = vec![];
    let mut points_by_mode = vec![];
    // the restore's points per destination mode (dry run without a reader step)
    {
        let s = Scratch::new("c19b_dry");
        for (mode, _) in &t.dst {
            let case = CaseB { mode: *mode, size: NewSize::Larger, two_txns: false, at: vec!["end".into(); 4] };
            let (out, _rd) = run_case_b(&t, &case, Reader::spawn(), s.path());
            if !out.restore_ok {
                rep.violation("C19:restore-without-any-reader-fails", json!({"part": "B", "case": case}));
            }
            for (k, d) in &out.violations {
                rep.violation(k, json!({"part": "B", "case": case, "d": d}));
            }
            let mut pts: Vec<String> = vec!["start".into()];
            for p in &out.points {
                pts.push(p.clone());
                if p == "before_copy" {
                    pts.push("mid_copy".into());
                }
            }
            pts.push("end".into());
            points_by_mode.push((*mode, pts));
        }
    }
    for (mode, pts) in &points_by_mode {
        for size in [NewSize::Larger, NewSize::Smaller] {
            if tier == Tier::Quick && size == NewSize::Smaller {
                continue;
            }
            for two in [false, true] {
                let m = program(two).len();
                if two && tier == Tier::Quick {
                    // quick: the reader with a warm cache - its first transaction ran before the
                    // restore started; only the second transaction's steps are placed
                    for pl in placements(3, pts.len(), blocks) {
                        let mut at: Vec<String> = vec!["start".into(); 4];
                        at.extend(pl.iter().map(|i| pts[*i].clone()));
                        cases.push(CaseB { mode: *mode, size, two_txns: true, at });
                    }
                    continue;
                }
                for pl in placements(m, pts.len(), blocks) {
                    cases.push(CaseB { mode: *mode, size, two_txns: two, at: pl.iter().map(|i| pts[*i].clone()).collect() });
                }
            }
        }
    }
    let total = cases.len();
    let counters: [std::sync::atomic::AtomicU64; 8] = [const { std::sync::atomic::AtomicU64::new(0) }; 8];
    let pool = rayon::ThreadPoolBuilder::new().num_threads(8).build().unwrap();
    pool.install(|| {
        use rayon::prelude::*;
        use std::sync::atomic::Ordering::Relaxed;
        cases.par_iter().for_each_init(
            || (Some(Reader::spawn()), Scratch::new("c19b_run")),
            |(reader, scratch), case| {
                if Instant::now() > deadline {
                    counters[7].fetch_add(1, Relaxed);
                    return;
                }
                let (out, rd) = run_case_b(&t, case, reader.take().unwrap(), scratch.path());
                *reader = Some(rd);
                let mut out = out;
                if !out.violations.is_empty() {
                    let (again, rd) = run_case_b(&t, case, reader.take().unwrap(), scratch.path());
                    *reader = Some(rd);
                    let k1: Vec<&String> = out.violations.iter().map(|v| &v.0).collect();
                    let k2: Vec<&String> = again.violations.iter().map(|v| &v.0).collect();
                    if k1 != k2 {
                        machinery_error(&format!("C19-B: non-deterministic schedule {case:?}: {k1:?} vs {k2:?}"));
                    }
                }
                counters[0].fetch_add(1, Relaxed);
                counters[1].fetch_add(out.refused, Relaxed);
                counters[2].fetch_add(out.saw_old, Relaxed);
                counters[3].fetch_add(out.saw_new, Relaxed);
                counters[4].fetch_add(out.corrupt, Relaxed);
                counters[5].fetch_add(if out.restore_ok { 0 } else { 1 }, Relaxed);
                counters[6].fetch_add(out.points.len() as u64 + case.at.len() as u64, Relaxed);
                for (k, d) in out.violations.drain(..) {
                    rep.violation(&k, json!({"part": "B", "case": case, "d": d}));
                }
                rep.outcome(out.outcome);
                // non-trivial: some reader step ran strictly inside the restore
                if case.at.iter().any(|a| a != "start" && a != "end") {
                    rep.nontrivial(digest(&format!("B{case:?}")));
                }
                if counters[0].load(Relaxed) % 1499 == 11 {
                    rep.sample(json!({"part": "B", "case": case, "restore_ok": out.restore_ok}));
                }
            },
        );
    });
    let g = |i: usize| counters[i].load(std::sync::atomic::Ordering::Relaxed);
    json!({
        "schedules": g(0), "schedules_total": total, "not_run_time_cap": g(7), "steps": g(6),
        "reader_steps_refused": g(1), "reads_entirely_old": g(2), "reads_entirely_new": g(3), "reader_steps_failed_with_corruption_error_not_judged": g(4),
        "restores_that_failed_on_a_reader_lock": g(5),
        "restore_points": points_by_mode.iter().map(|(m, p)| json!({"mode": m, "points": p})).collect::<Vec<_>>(),
        "preemption_bound": blocks - 1,
        "reader_programs": ["open begin read commit", "open begin read commit begin read commit"],
    })
}

//! E11 `backup` (C19).
//!  Part A (content & authorship): the built `corrosion` binary's `backup` and `restore`
//!  commands over a grid of source databases x destinations x restore flags.
//!  Part B (live restore atomicity): see `part_b` (system-call gated interleavings).

use klukai_types::actor::ActorId;
use klukai_types::api::Statement;
use klukai_types::base::CrsqlDbVersion;
use klukai_types::broadcast::ChangeV1;
use klukai_types::sqlite::CrConn;
use klukai_types::sync::SyncNeedV1;
use serde_json::{Value, json};
use std::path::{Path, PathBuf};
use std::process::Command;
use std::time::{Duration, Instant};
use vh::vcore::*;
use vh::vnode::*;

mod part_b;

const SCHEMA: &str = "CREATE TABLE t (id INTEGER PRIMARY KEY NOT NULL, a TEXT NOT NULL DEFAULT '', b TEXT);
CREATE TABLE u (k1 INTEGER NOT NULL, k2 TEXT NOT NULL, x TEXT, PRIMARY KEY (k1, k2));";

const CORROSION: &str = "/repo/target/debug/corrosion";

fn write_all(node: &mut RtNode, stmts: Vec<Vec<&str>>) -> Vec<ChangeV1> {
    let mut out = vec![];
    for tx in stmts {
        let st: Vec<Statement> = tx.iter().map(|s| Statement::Simple(s.to_string())).collect();
        let (status, body, bc) = node.run(async |nd| nd.write(st, None).await);
        if status != 200 {
            machinery_error(&format!("source write failed: {body:?}"));
        }
        out.extend(bc);
    }
    out
}

#[derive(Clone, Copy, Debug, PartialEq, serde::Serialize, serde::Deserialize)]
enum SrcKind {
    /// only the source's own changes
    Own,
    /// own + two other actors' changes, deletions, overwritten versions
    Mixed,
    /// Mixed, then switched to a rollback journal
    MixedDeleteJournal,
}

#[derive(Clone, Copy, Debug, PartialEq, serde::Serialize, serde::Deserialize)]
enum DstKind {
    Absent,
    EmptyFile,
    Smaller,
    Larger,
    WalUncheckpointed,
}

#[derive(Clone, Copy, Debug, PartialEq, serde::Serialize, serde::Deserialize)]
enum Flags {
    Plain,
    SelfActorId,
    ActorIdKnown,
    ActorIdUnknown,
}

#[derive(Clone, Debug, serde::Serialize, serde::Deserialize)]
struct CaseA {
    src: SrcKind,
    dst: DstKind,
    flags: Flags,
}

struct Snapshot {
    t: Vec<Vec<String>>,
    u: Vec<Vec<String>>,
    changes: Vec<Vec<String>>,
    site0: Option<String>,
    members: i64,
}

fn snapshot(db: &Path) -> Result<Snapshot, String> {
    let conn = rusqlite::Connection::open_with_flags(db, rusqlite::OpenFlags::SQLITE_OPEN_READ_ONLY).map_err(|e| e.to_string())?;
    // site ids through the plain tables so that ordinal 0 may be absent
    let site0: Option<String> = conn.query_row("SELECT hex(site_id) FROM crsql_site_id WHERE ordinal = 0", [], |r| r.get(0)).ok();
    let members: i64 = conn.query_row("SELECT count(*) FROM __corro_members", [], |r| r.get(0)).map_err(|e| e.to_string())?;
    let t = dump_query(&conn, "SELECT * FROM t ORDER BY 1");
    let u = dump_query(&conn, "SELECT * FROM u ORDER BY 1,2");
    // authorship independent of ordinals: join clock tables with crsql_site_id
    let mut changes = vec![];
    for tbl in ["t", "u"] {
        let sql = format!(
            "SELECT '{tbl}', c.key, c.col_name, c.col_version, c.db_version, c.seq, hex(s.site_id) FROM {tbl}__crsql_clock c LEFT JOIN crsql_site_id s ON s.ordinal = c.site_id ORDER BY 2,3"
        );
        changes.extend(dump_query(&conn, &sql));
    }
    Ok(Snapshot { t, u, changes, site0, members })
}

struct Built {
    _scratch: Scratch,
    db: PathBuf,
    actor: ActorId,
    others: Vec<ActorId>,
}

fn build_source(kind: SrcKind) -> Built {
    let s = Scratch::new("bsrc");
    let tpl0 = Template::build(0, SCHEMA);
    let db = tpl0.instantiate(&s.path().join("src"));
    let mut src = RtNode::open(&db, NodeOpts::default());
    let actor = src.node().actor_id();
    write_all(
        &mut src,
        vec![
            vec!["INSERT INTO t (id,a,b) VALUES (1,'s1','x')", "INSERT INTO t (id,a,b) VALUES (2,'s2',NULL)"],
            vec!["UPDATE t SET a='s1b' WHERE id=1"],
            vec!["INSERT INTO u (k1,k2,x) VALUES (1,'m','ux')"],
            vec!["DELETE FROM t WHERE id=2"],
        ],
    );
    let mut others = vec![];
    if kind != SrcKind::Own {
        for (idx, base) in [(1usize, 100i64), (2, 200)] {
            let tpl = Template::build(idx, SCHEMA);
            let p = tpl.instantiate(&s.path().join(format!("o{idx}")));
            let mut o = RtNode::open(&p, NodeOpts::default());
            others.push(o.node().actor_id());
            let a = format!("INSERT INTO t (id,a,b) VALUES ({},'o{idx}','y')", base + 1);
            let b = format!("UPDATE t SET b='o{idx}b' WHERE id={}", base + 1);
            let c = format!("INSERT INTO t (id,a,b) VALUES (1,'o{idx}-wins-z','z') ON CONFLICT (id) DO UPDATE SET a=excluded.a");
            let d = format!("INSERT INTO u (k1,k2,x) VALUES ({idx},'o','ou')");
            let vs = write_all(&mut o, vec![vec![&a], vec![&b], vec![&c], vec![&d]]);
            src.run(async |nd| {
                for v in vs {
                    nd.deliver(vec![v]).await.unwrap();
                }
                while nd.clear_one().await.is_some() {}
            });
        }
    }
    src.run(async |nd| {
        // node-local state that must not travel
        let conn = nd.agent.pool().write_priority().await.unwrap();
        conn.execute("INSERT INTO __corro_members (actor_id, address, foca_state) VALUES (x'0102', '127.0.0.1:1', '{}')", []).unwrap();
        drop(conn);
        nd.checkpoint_truncate().await;
    });
    src.crash();
    let mut db = db;
    if kind == SrcKind::MixedDeleteJournal {
        // a rollback-journal source: the node checkpointed and truncated its log above, so the
        // database file alone is the whole database; switch a copy of it (nobody else has the copy
        // open, whatever the dropped node's threads are still doing with the original)
        let dir = s.path().join("src_rollback");
        std::fs::create_dir_all(&dir).unwrap();
        let copy = dir.join(db.file_name().unwrap());
        std::fs::copy(&db, &copy).unwrap();
        let c = rusqlite::Connection::open(&copy).unwrap();
        let m: String = c.query_row("PRAGMA journal_mode = DELETE", [], |r| r.get(0)).unwrap();
        if m != "delete" {
            machinery_error("could not switch the source copy to a rollback journal");
        }
        drop(c);
        db = copy;
    }
    Built { _scratch: s, db, actor, others }
}

fn build_dest(dir: &Path, kind: DstKind) -> (PathBuf, Option<ActorId>) {
    std::fs::create_dir_all(dir).unwrap();
    let db = dir.join("corrosion.db");
    // a subscriptions directory that must be gone after restore
    std::fs::create_dir_all(dir.join("subscriptions/deadbeef")).unwrap();
    std::fs::write(dir.join("subscriptions/deadbeef/sub.sqlite"), b"old").unwrap();
    match kind {
        DstKind::Absent => (db, None),
        DstKind::EmptyFile => {
            std::fs::write(&db, b"").unwrap();
            (db, None)
        }
        DstKind::Smaller | DstKind::Larger | DstKind::WalUncheckpointed => {
            let tpl = Template::build(3, SCHEMA);
            let p = tpl.instantiate(dir);
            let mut n = RtNode::open(&p, NodeOpts { no_autocheckpoint: kind == DstKind::WalUncheckpointed, ..Default::default() });
            let actor = n.node().actor_id();
            let rows = if kind == DstKind::Larger { 3000 } else { 2 };
            let ins = format!("INSERT INTO t (id,a,b) SELECT 5000+value, 'dest-row-' || value, 'padding-padding-padding-padding' FROM generate_series(1, {rows})");
            write_all(&mut n, vec![vec![&ins]]);
            if kind != DstKind::WalUncheckpointed {
                n.run(async |nd| nd.checkpoint_truncate().await);
            }
            n.crash();
            (p, Some(actor))
        }
    }
}

fn run_cmd(args: &[&str]) -> (bool, String) {
    let out = Command::new(CORROSION).args(args).env("RUST_LOG", "warn").output().expect("run corrosion");
    (out.status.success(), format!("{}{}", String::from_utf8_lossy(&out.stdout), String::from_utf8_lossy(&out.stderr)))
}

fn run_case_a(case: &CaseA) -> Vec<(String, Value)> {
    let mut viol: Vec<(String, Value)> = vec![];
    let built = build_source(case.src);
    let src_snap = snapshot(&built.db).unwrap();
    let work = Scratch::new("bdst");
    let backup = work.path().join("backup.db");
    let (ok, out) = run_cmd(&["backup", backup.to_str().unwrap(), "--db-path", built.db.to_str().unwrap()]);
    if !ok {
        viol.push(("C19:backup-command-failed".into(), json!({"output": out.chars().take(400).collect::<String>()})));
        return viol;
    }
    // the source is untouched by taking a backup
    let src_after = snapshot(&built.db).unwrap();
    if src_after.changes != src_snap.changes || src_after.t != src_snap.t || src_after.site0 != src_snap.site0 {
        viol.push(("C19:backup-modified-the-source".into(), json!({})));
    }
    let bsnap = snapshot(&backup).unwrap();
    if bsnap.members != 0 {
        viol.push(("C19:backup-carries-membership-state".into(), json!({"rows": bsnap.members})));
    }
    let ddir = work.path().join("dest");
    let (dst_db, dst_actor) = build_dest(&ddir, case.dst);
    let cfg = ddir.join("config.toml");
    std::fs::write(
        &cfg,
        format!(
            "[db]\npath = \"{}\"\n\n[api]\naddr = \"127.0.0.1:0\"\n\n[gossip]\naddr = \"127.0.0.1:0\"\nplaintext = true\n\n[admin]\npath = \"{}\"\n",
            dst_db.display(),
            ddir.join("admin.sock").display()
        ),
    )
    .unwrap();
    let unknown = ActorId::from_bytes([0xEE; 16]);
    let known = built.others.first().copied().unwrap_or(built.actor);
    let mut args: Vec<String> = vec!["-c".into(), cfg.display().to_string(), "restore".into(), backup.display().to_string()];
    let expected_site0: Option<ActorId> = match case.flags {
        Flags::Plain => None,
        Flags::SelfActorId => {
            args.push("--self-actor-id".into());
            dst_actor
        }
        Flags::ActorIdKnown => {
            args.push("--actor-id".into());
            args.push(known.0.to_string());
            Some(known)
        }
        Flags::ActorIdUnknown => {
            args.push("--actor-id".into());
            args.push(unknown.0.to_string());
            Some(unknown)
        }
    };
    if case.flags == Flags::SelfActorId && dst_actor.is_none() {
        // nothing to keep: the command is expected to fail or fall back; not judged
        return viol;
    }
    let argrefs: Vec<&str> = args.iter().map(|s| s.as_str()).collect();
    let (ok, out) = run_cmd(&argrefs);
    if !ok {
        viol.push(("C19:restore-command-failed".into(), json!({"output": out.chars().take(600).collect::<String>()})));
        return viol;
    }
    let r = match snapshot(&dst_db) {
        Ok(r) => r,
        Err(e) => {
            viol.push(("C19:restored-database-unreadable".into(), json!({"err": e})));
            return viol;
        }
    };
    if r.t != src_snap.t || r.u != src_snap.u {
        viol.push(("C19:restored-rows-differ-from-source".into(), json!({"t_rows": [src_snap.t.len(), r.t.len()]})));
    }
    if r.changes != src_snap.changes {
        let diff: Vec<_> = r.changes.iter().filter(|c| !src_snap.changes.contains(c)).take(3).collect();
        viol.push(("C19:restored-authorship-or-cell-versions-differ-from-source".into(), json!({"example_rows_only_in_restored": diff})));
    }
    if r.members != 0 {
        viol.push(("C19:restored-database-carries-membership-state".into(), json!({"rows": r.members})));
    }
    if ddir.join("subscriptions").exists() {
        viol.push(("C19:subscriptions-directory-survived-restore".into(), json!({})));
    }
    match expected_site0 {
        Some(a) => {
            let want = a.to_bytes().iter().map(|b| format!("{b:02X}")).collect::<String>();
            if r.site0.as_deref() != Some(want.as_str()) {
                viol.push(("C19:restored-node-identity-wrong".into(), json!({"ordinal0": r.site0, "want": want})));
            }
        }
        None => {
            let src_hex = built.actor.to_bytes().iter().map(|b| format!("{b:02X}")).collect::<String>();
            if r.site0.as_deref() == Some(src_hex.as_str()) {
                viol.push(("C19:restored-node-took-the-source-identity".into(), json!({})));
            }
        }
    }
    // an agent started on the result serves the data with the original authors
    let mut node = RtNode::open(&dst_db, NodeOpts::default());
    let me = node.node().actor_id();
    if let Some(a) = expected_site0 {
        if me != a {
            viol.push(("C19:agent-on-restored-database-has-wrong-actor-id".into(), json!({"got": me.to_string(), "want": a.to_string()})));
        }
    } else if me == built.actor {
        viol.push(("C19:agent-on-restored-database-impersonates-the-source".into(), json!({})));
    }
    let mut authors = vec![built.actor];
    authors.extend(built.others.iter().copied());
    for a in authors {
        if a == me {
            continue;
        }
        let served = node.run(async |nd| nd.serve(vec![(a, vec![SyncNeedV1::Full { versions: CrsqlDbVersion(1)..=CrsqlDbVersion(8) }])]).await).unwrap_or_default();
        let n_changes: usize = served.iter().map(|c| c.changes().len()).sum();
        let wrong = served.iter().flat_map(|c| c.changes().iter()).filter(|ch| ch.site_id != a.to_bytes()).count();
        let expect_live = src_snap.changes.iter().filter(|r| r[6] == format!("t:{}", a.to_bytes().iter().map(|b| format!("{b:02X}")).collect::<String>())).count();
        if wrong > 0 {
            viol.push(("C19:served-changes-attributed-to-the-wrong-actor".into(), json!({"actor": a.to_string(), "wrong": wrong})));
        }
        if expect_live > 0 && n_changes == 0 {
            viol.push(("C19:restored-node-does-not-serve-an-authors-changes".into(), json!({"actor": a.to_string(), "expected_live_cells": expect_live})));
        }
    }
    node.crash();
    viol
}

fn part_a(rep: &Report, tier: Tier, deadline: Instant) -> (u64, Option<String>) {
    let srcs = tier.pick(vec![SrcKind::Mixed], vec![SrcKind::Own, SrcKind::Mixed, SrcKind::MixedDeleteJournal]);
    let dsts = [DstKind::Absent, DstKind::EmptyFile, DstKind::Smaller, DstKind::Larger, DstKind::WalUncheckpointed];
    let flags = [Flags::Plain, Flags::SelfActorId, Flags::ActorIdKnown, Flags::ActorIdUnknown];
    let mut n = 0;
    for s in srcs {
        for d in dsts {
            for f in flags {
                if Instant::now() > deadline {
                    return (n, Some("wall-clock cap in the content grid".into()));
                }
                let case = CaseA { src: s, dst: d, flags: f };
                let v = run_case_a(&case);
                n += 1;
                for (k, dd) in v {
                    rep.violation(&k, json!({"case": case, "d": dd}));
                }
                rep.outcome(digest(&format!("{case:?}")));
                rep.nontrivial(digest(&format!("{case:?}")));
                if n % 7 == 2 {
                    rep.sample(json!({"case": case}));
                }
            }
        }
    }
    (n, None)
}

fn main() {
    if std::env::args().any(|a| a == "--reader") {
        part_b::reader_main();
    }
    let cli = parse_cli();
    let rep = Report::new("C19", cli.tier, cli.seed);
    sweep_stale_scratch();
    if !Path::new(CORROSION).exists() {
        machinery_error("corrosion binary not built (bin/check builds it before running this engine)");
    }
    if let Some(p) = &cli.replay {
        let r = load_replay(p);
        if r["part"] == "B" {
            part_b::install_handler();
            let t = part_b::build_templates();
            let case: part_b::CaseB = serde_json::from_value(r["case"].clone()).unwrap();
            let s = Scratch::new("c19b_replay");
            let (out, _rd) = part_b::run_case_b(&t, &case, part_b::Reader::spawn(), s.path());
            println!("restore points reached: {:?}\nrestore ok: {}", out.points, out.restore_ok);
            for (k, d) in &out.violations {
                println!("reproduced {k}: {d}");
            }
            std::process::exit(if out.violations.is_empty() { 0 } else { 1 });
        }
        let case: CaseA = serde_json::from_value(r["case"].clone()).unwrap();
        let v = run_case_a(&case);
        for (k, d) in &v {
            println!("reproduced {k}: {d}");
        }
        std::process::exit(if v.is_empty() { 0 } else { 1 });
    }
    let deadline = Instant::now() + Duration::from_secs(cli.tier.pick(150, 900));
    let (n, mut cap) = part_a(&rep, cli.tier, deadline);
    // part A's verdict must not be lost to anything that happens in part B
    if rep.violation_count() > 0 {
        rep.set("states", n);
        rep.set("transitions", n);
        rep.set("part_b", json!({"skipped": "part A reported a violation"}));
        rep.set("exhaustive", false);
        rep.finish();
    }
    let b = part_b::part_b(&rep, cli.tier, Instant::now() + Duration::from_secs(cli.tier.pick(240, 900)));
    let nb = b["schedules"].as_u64().unwrap_or(0);
    if b["not_run_time_cap"].as_u64().unwrap_or(0) > 0 {
        cap = cap.or(Some(format!("part B: {} of {} schedules not run (wall-clock cap)", b["not_run_time_cap"], b["schedules_total"])));
    }
    rep.set("states", n + nb);
    rep.set("transitions", n + b["steps"].as_u64().unwrap_or(0));
    rep.set("evaluations", n + nb);
    rep.set("traces_validated_against_impl", n + nb);
    rep.set("part_b", b);
    rep.set("exhaustive", cap.is_none());
    if let Some(c) = cap {
        rep.set("cap_hit", c);
    }
    rep.set("bounds", json!({"sources": cli.tier.pick(vec!["mixed"], vec!["own", "mixed", "mixed+rollback-journal"]), "destinations": ["absent", "empty file", "smaller db", "larger db", "WAL with un-checkpointed frames"],
        "flags": ["none", "--self-actor-id", "--actor-id known", "--actor-id unknown"]}));
    rep.assume("part A runs the built corrosion binary (rebuilt from /repo by bin/check); authorship is compared through clock tables joined with crsql_site_id, independent of ordinals");
    rep.assume("part B: sqlite3_restore::restore runs in the harness process and is stopped at the hook points between its steps (after every lock it takes, after lock_all, journal removal, before the copy, after the copy, after the wal-index reset); the reader is a child process executing open / begin+first read / read-all+integrity_check / commit one step at a time; the bulk copy is one kernel call, its half-done state is injected (first half of the new image written over the old file) while the restore is parked right before it");
    rep.assume("part B: a reader step that fails with SQLITE_BUSY / LOCKED / PROTOCOL / CANTOPEN is 'refused'; a step failing with a corruption error is counted in the evidence and not judged (the statement speaks of reads that succeed)");
    rep.require_nontrivial(10, "every grid cell (source x destination x flags) is a distinct non-trivial case");
    rep.finish();
}

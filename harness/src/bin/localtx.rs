//! E3 `localtx` (C07): local transactions are all-or-nothing with gap-free versions.
//! Sequential part: every sequence of requests over an alphabet of succeeding, no-op and failing
//! statement lists through the real `api_v1_transactions`, against a reference model
//! (BTreeMap rows + version counter); large transactions crossing the chunk boundary; a timeout.

use klukai_types::api::{SqliteParam, Statement};
use klukai_types::broadcast::{ChangeV1, Changeset};
use serde_json::{Value, json};
use std::collections::BTreeMap;
use std::time::{Duration, Instant};
use vh::vcore::*;
use vh::vnode::*;

const SCHEMA: &str = "CREATE TABLE t (id INTEGER PRIMARY KEY NOT NULL, a TEXT NOT NULL DEFAULT '', b TEXT NOT NULL DEFAULT '');";

#[derive(Clone, Copy, Debug, PartialEq, Eq, Hash, serde::Serialize, serde::Deserialize)]
enum Req {
    Ins1,
    Ins12,
    Upd1,
    Upd1Same,
    UpdB2,
    Del1,
    Del9,
    /// three statements, failing at 1 / 2 / 3
    SyntaxAt(u8),
    PkDupAt(u8),
    ParamCountAt2,
    NotNullAt2,
    /// fails at statement 1 iff row 1 exists (state dependent)
    InsExisting1Then7,
    /// n rows in one statement
    Large(u32),
    /// statement that runs past a 1 s timeout after a successful insert
    Timeout,
    /// the same, followed by one more insert (which must not survive either)
    TimeoutThenIns,
    Empty,
}

type Rows = BTreeMap<i64, (String, String)>;

fn ins(id: i64, a: &str, b: &str) -> Statement {
    Statement::Simple(format!("INSERT INTO t (id,a,b) VALUES ({id},'{a}','{b}')"))
}

fn stmts(r: Req, k: usize) -> (Vec<Statement>, Option<u64>) {
    let s = |q: &str| Statement::Simple(q.to_string());
    match r {
        Req::Ins1 => (vec![ins(1, &format!("x{k}"), "y")], None),
        Req::Ins12 => (vec![ins(1, &format!("x{k}"), "y"), ins(2, "p", "q")], None),
        Req::Upd1 => (vec![Statement::Simple(format!("UPDATE t SET a='u{k}' WHERE id=1"))], None),
        Req::Upd1Same => (vec![s("UPDATE t SET a=a WHERE id=1")], None),
        Req::UpdB2 => (vec![Statement::Simple(format!("UPDATE t SET b='v{k}' WHERE id IN (1,2)"))], None),
        Req::Del1 => (vec![s("DELETE FROM t WHERE id=1")], None),
        Req::Del9 => (vec![s("DELETE FROM t WHERE id=9")], None),
        Req::SyntaxAt(p) => {
            let mut v = vec![ins(70, "s", "s"), ins(71, "s", "s"), ins(72, "s", "s")];
            v[(p - 1) as usize] = s("INSER INTO t VALUES (1)");
            (v, None)
        }
        Req::PkDupAt(p) => {
            // the statement at position p repeats the key of an earlier one (p>=2), or of itself twice (p=1)
            match p {
                1 => (vec![s("INSERT INTO t (id,a,b) VALUES (80,'d','d'),(80,'e','e')"), ins(81, "d", "d"), ins(82, "d", "d")], None),
                2 => (vec![ins(80, "d", "d"), ins(80, "e", "e"), ins(82, "d", "d")], None),
                _ => (vec![ins(80, "d", "d"), ins(81, "d", "d"), ins(80, "e", "e")], None),
            }
        }
        Req::ParamCountAt2 => (
            vec![
                ins(90, "c", "c"),
                Statement::WithParams("INSERT INTO t (id,a,b) VALUES (?,?,?)".into(), vec![SqliteParam::Integer(91)]),
                ins(92, "c", "c"),
            ],
            None,
        ),
        Req::NotNullAt2 => (vec![ins(95, "n", "n"), s("INSERT INTO t (id,a,b) VALUES (96,NULL,'n')"), ins(97, "n", "n")], None),
        Req::InsExisting1Then7 => (vec![ins(1, "z", "z"), ins(7, "z", "z")], None),
        Req::Large(n) => (
            vec![Statement::Simple(format!(
                "INSERT INTO t (id,a,b) SELECT 1000+value, 'large-a-{k}', 'large-b' FROM generate_series(1, {n})"
            ))],
            None,
        ),
        Req::Timeout => (
            vec![
                ins(60, "t", "t"),
                s("WITH RECURSIVE c(x) AS (SELECT 1 UNION ALL SELECT x+1 FROM c WHERE x < 4000000000) INSERT INTO t (id,a,b) SELECT 5000000+x,'t','t' FROM c WHERE x % 1000000007 = 0"),
            ],
            Some(1),
        ),
        Req::TimeoutThenIns => (
            vec![
                ins(60, "t", "t"),
                s("WITH RECURSIVE c(x) AS (SELECT 1 UNION ALL SELECT x+1 FROM c WHERE x < 4000000000) INSERT INTO t (id,a,b) SELECT 5000000+x,'t','t' FROM c WHERE x % 1000000007 = 0"),
                ins(61, "late", "late"),
            ],
            Some(1),
        ),
        Req::Empty => (vec![], None),
    }
}

/// reference model: Ok(changed) or Err(())
fn model(r: Req, k: usize, rows: &mut Rows) -> Result<bool, ()> {
    let before = rows.clone();
    let res: Result<(), ()> = (|| {
        match r {
            Req::Ins1 => {
                if rows.contains_key(&1) {
                    return Err(());
                }
                rows.insert(1, (format!("x{k}"), "y".into()));
            }
            Req::Ins12 => {
                if rows.contains_key(&1) || rows.contains_key(&2) {
                    return Err(());
                }
                rows.insert(1, (format!("x{k}"), "y".into()));
                rows.insert(2, ("p".into(), "q".into()));
            }
            Req::Upd1 => {
                if let Some(r) = rows.get_mut(&1) {
                    r.0 = format!("u{k}");
                }
            }
            Req::Upd1Same | Req::Del9 => {}
            Req::UpdB2 => {
                for id in [1, 2] {
                    if let Some(r) = rows.get_mut(&id) {
                        r.1 = format!("v{k}");
                    }
                }
            }
            Req::Del1 => {
                rows.remove(&1);
            }
            Req::SyntaxAt(_) | Req::PkDupAt(_) | Req::ParamCountAt2 | Req::NotNullAt2 | Req::Timeout | Req::TimeoutThenIns | Req::Empty => return Err(()),
            Req::InsExisting1Then7 => {
                if rows.contains_key(&1) || rows.contains_key(&7) {
                    return Err(());
                }
                rows.insert(1, ("z".into(), "z".into()));
                rows.insert(7, ("z".into(), "z".into()));
            }
            Req::Large(n) => {
                for i in 1..=n as i64 {
                    if rows.contains_key(&(1000 + i)) {
                        return Err(());
                    }
                }
                for i in 1..=n as i64 {
                    rows.insert(1000 + i, (format!("large-a-{k}"), "large-b".into()));
                }
            }
        }
        Ok(())
    })();
    match res {
        Err(()) => {
            *rows = before;
            Err(())
        }
        Ok(()) => Ok(*rows != before),
    }
}

static MULTI_CHUNK: std::sync::atomic::AtomicU64 = std::sync::atomic::AtomicU64::new(0);

struct SeqResult {
    violations: Vec<(String, Value)>,
    outcome: u64,
    nontrivial: bool,
}

/// Three versions of another actor (rows 901..=903), delivered to the node before the requests in
/// the variant `with_remote`: the node then already holds somebody else's changes at the very
/// version numbers its own transactions are going to take.
static REMOTE: std::sync::OnceLock<Vec<ChangeV1>> = std::sync::OnceLock::new();

fn remote_versions() -> &'static Vec<ChangeV1> {
    REMOTE.get_or_init(|| {
        let tpl = Template::build(1, SCHEMA);
        let s = Scratch::new("ltx_r");
        let p = tpl.instantiate(&s.path().join("r"));
        let mut w = RtNode::open(&p, NodeOpts::default());
        let mut out = vec![];
        for i in 1..=3 {
            let (st, _b, bc) = w.run(async |nd| nd.write(vec![ins(900 + i, "remote", "remote")], None).await);
            assert_eq!(st, 200);
            out.push(bc[0].clone());
        }
        out
    })
}

fn run_seq(tpl: &Template, seq: &[Req]) -> SeqResult {
    let a = run_seq_v(tpl, seq, false);
    if !a.violations.is_empty() {
        return a;
    }
    let b = run_seq_v(tpl, seq, true);
    SeqResult { violations: b.violations, outcome: digest(&(a.outcome, b.outcome)), nontrivial: a.nontrivial || b.nontrivial }
}

fn run_seq_v(tpl: &Template, seq: &[Req], with_remote: bool) -> SeqResult {
    let s = Scratch::new("ltx");
    let p = tpl.instantiate(&s.path().join("n"));
    let mut node = RtNode::open(&p, NodeOpts::default());
    let seq = seq.to_vec();
    let remote = if with_remote { remote_versions().clone() } else { vec![] };
    node.run(async |nd| {
        let mut rows: Rows = Rows::new();
        for (i, v) in remote.iter().enumerate() {
            nd.deliver(vec![v.clone()]).await.unwrap_or_else(|e| machinery_error(&format!("remote history: {e}")));
            rows.insert(901 + i as i64, ("remote".into(), "remote".into()));
        }
        while nd.clear_one().await.is_some() {}
        let mut counter = 0u64;
        let mut violations: Vec<(String, Value)> = vec![];
        let mut failed = 0;
        let own = nd.actor_id();
        for (k, r) in seq.iter().enumerate() {
            let (st, timeout) = stmts(*r, k);
            let expect = model(*r, k, &mut rows);
            let (status, body, bcast) = nd.write(st, timeout).await;
            let tag = format!("request {k} {r:?}");
            let mut bad = |key: &str, d: Value| violations.push((format!("C07:{key}"), json!({"at": tag, "d": d})));
            match expect {
                Err(()) => {
                    failed += 1;
                    if status == 200 {
                        bad("failing-request-acknowledged", json!({"status": status, "body": format!("{body:?}")}));
                    }
                    if body.version.is_some() {
                        bad("failed-request-consumed-a-version", json!({"version": body.version}));
                    }
                    if !bcast.is_empty() {
                        bad("failed-request-emitted-changes", json!({"n": bcast.len()}));
                    }
                }
                Ok(changed) => {
                    if status != 200 {
                        bad("valid-request-rejected", json!({"status": status, "body": format!("{body:?}")}));
                    } else if changed {
                        counter += 1;
                        if body.version != Some(counter) {
                            bad("version-not-previous-plus-one", json!({"got": body.version, "want": counter}));
                            if let Some(v) = body.version {
                                counter = v;
                            }
                        }
                    } else {
                        if body.version.is_some() {
                            bad("no-op-request-consumed-a-version", json!({"version": body.version}));
                        }
                        if !bcast.is_empty() {
                            bad("no-op-request-emitted-changes", json!({"n": bcast.len()}));
                        }
                    }
                    if changed && status == 200 {
                        // announced changesets: tile 0..=last_seq, carry exactly the version's changes
                        let live = nd.crsql_changes().await;
                        let want: Vec<_> = live.iter().filter(|c| c.site_id == own.to_bytes() && c.db_version.0 == counter).cloned().collect();
                        if bcast.len() >= 2 {
                            MULTI_CHUNK.fetch_add(1, std::sync::atomic::Ordering::Relaxed);
                        }
                        check_bcast(&bcast, own, counter, &want, &mut bad);
                    }
                }
            }
            // table equals the model
            let got = nd.table_rows("t").await;
            let want: Vec<Vec<String>> = rows.iter().map(|(id, (a, b))| vec![format!("i:{id}"), format!("t:{a}"), format!("t:{b}")]).collect();
            if got != want {
                let mut bad = |key: &str, d: Value| violations.push((format!("C07:{key}"), json!({"at": tag, "d": d})));
                bad("table-differs-from-model", json!({"got_rows": got.len(), "want_rows": want.len(), "first_got": got.first(), "first_want": want.first()}));
            }
            // version bookkeeping: counter, no gap in own versions
            let st = nd.sync_state().await;
            let head = st.heads.get(&own).map(|h| h.0).unwrap_or(0);
            let dbv: u64 = nd.read(|c| c.query_row("SELECT crsql_db_version()", [], |r| r.get(0)).unwrap()).await;
            let mut bad = |key: &str, d: Value| violations.push((format!("C07:{key}"), json!({"at": tag, "d": d})));
            if head != counter || dbv != counter {
                bad("version-counter-mismatch", json!({"advertised_head": head, "crsql_db_version": dbv, "model": counter}));
            }
            if st.need.get(&own).map(|n| !n.is_empty()).unwrap_or(false) || st.partial_need.contains_key(&own) {
                bad("node-lists-a-gap-in-its-own-versions", json!({"need": format!("{:?}", st.need.get(&own))}));
            }
            let gaps: i64 = nd.read(move |c| c.query_row("SELECT count(*) FROM __corro_bookkeeping_gaps WHERE actor_id = ?", [own], |r| r.get(0)).unwrap()).await;
            if gaps != 0 {
                bad("gap-rows-for-own-actor", json!({"rows": gaps}));
            }
        }
        let outcome = digest(&(rows.len(), counter, failed));
        SeqResult { violations, outcome, nontrivial: failed > 0 && counter > 0 }
    })
}

fn check_bcast(bcast: &[ChangeV1], own: klukai_types::actor::ActorId, version: u64, want: &[klukai_types::change::Change], bad: &mut dyn FnMut(&str, Value)) {
    if bcast.is_empty() {
        bad("acknowledged-version-not-announced", json!({"version": version}));
        return;
    }
    let mut ranges = vec![];
    let mut sent = vec![];
    let mut last = None;
    // each chunk is handed to the broadcast queue by a task of its own: arrival order is not part
    // of the statement (the ranges must tile, in whatever order they are announced)
    let mut bcast: Vec<&ChangeV1> = bcast.iter().collect();
    bcast.sort_by_key(|c| match &c.changeset {
        Changeset::Full { seqs, .. } => seqs.start().0,
        _ => 0,
    });
    for c in bcast {
        if c.actor_id != own {
            bad("announcement-with-foreign-actor", json!({"actor": c.actor_id.to_string()}));
        }
        match &c.changeset {
            Changeset::Full { version: v, changes, seqs, last_seq, .. } => {
                if v.0 != version {
                    bad("announcement-for-another-version", json!({"got": v.0, "want": version}));
                }
                if let Some(l) = last {
                    if l != last_seq.0 {
                        bad("announcements-disagree-on-last-seq", json!({"a": l, "b": last_seq.0}));
                    }
                }
                last = Some(last_seq.0);
                ranges.push((seqs.start().0, seqs.end().0));
                for ch in changes {
                    if ch.seq < *seqs.start() || ch.seq > *seqs.end() {
                        bad("change-outside-its-changeset-range", json!({"seq": ch.seq.0}));
                    }
                    sent.push(ch.clone());
                }
            }
            other => bad("announcement-not-a-full-changeset", json!({"got": format!("{other:?}").chars().take(80).collect::<String>()})),
        }
    }
    let last = last.unwrap_or(0);
    let mut cur = 0;
    for (s, e) in &ranges {
        if *s != cur || e < s {
            bad("announced-ranges-do-not-tile", json!({"ranges": ranges, "last_seq": last}));
            break;
        }
        cur = e + 1;
    }
    if cur != last + 1 {
        bad("announced-ranges-do-not-tile", json!({"ranges": ranges, "last_seq": last}));
    }
    let want_max = want.iter().map(|c| c.seq.0).max().unwrap_or(0);
    if last != want_max {
        bad("announced-last-seq-wrong", json!({"got": last, "want": want_max}));
    }
    if sent.len() != want.len() || sent.iter().zip(want.iter()).any(|(a, b)| a != b) {
        bad("announced-changes-differ-from-the-version", json!({"sent": sent.len(), "want": want.len()}));
    }
}

// ------------------------------------------------------------------------------------------
// concurrent part: every order of the requests' critical sections x every interleaving of the
// post-commit announcement tasks with later requests
// ------------------------------------------------------------------------------------------

static GATING: std::sync::atomic::AtomicBool = std::sync::atomic::AtomicBool::new(false);
static PARKED_B: std::sync::Mutex<Vec<u64>> = std::sync::Mutex::new(Vec::new());
static RELEASED_B: std::sync::Mutex<Vec<u64>> = std::sync::Mutex::new(Vec::new());

fn install_gate() {
    use std::sync::atomic::Ordering::SeqCst;
    klukai_types::verif::set_point_handler(Some(std::sync::Arc::new(|name: &str, detail: &str| {
        if name != "bcast.start" || !GATING.load(SeqCst) {
            return;
        }
        let v: u64 = detail.parse().unwrap_or(0);
        PARKED_B.lock().unwrap().push(v);
        let start = Instant::now();
        tokio::task::block_in_place(|| {
            loop {
                if RELEASED_B.lock().unwrap().contains(&v) || !GATING.load(SeqCst) || start.elapsed() > Duration::from_secs(30) {
                    break;
                }
                std::thread::sleep(Duration::from_micros(100));
            }
        });
        PARKED_B.lock().unwrap().retain(|x| *x != v);
    })));
}

#[derive(Clone, Debug, PartialEq, serde::Serialize, serde::Deserialize)]
enum CAct {
    /// run request i (its critical section is atomic: write connection + booked lock)
    R(usize),
    /// let the announcement task of version v run to completion
    B(u64),
}

struct ConcOut {
    widths: Vec<usize>,
    acts: Vec<CAct>,
    violations: Vec<(String, Value)>,
    outcome: u64,
}

fn run_conc(tpl: &Template, reqs: &[Req], prefix: &[usize]) -> ConcOut {
    use std::sync::atomic::Ordering::SeqCst;
    let s = Scratch::new("ltc");
    let p = tpl.instantiate(&s.path().join("n"));
    PARKED_B.lock().unwrap().clear();
    RELEASED_B.lock().unwrap().clear();
    GATING.store(true, SeqCst);
    let rt = tokio::runtime::Builder::new_multi_thread().worker_threads(4).enable_all().build().unwrap();
    let reqs = reqs.to_vec();
    let prefix = prefix.to_vec();
    let out = rt.block_on(async move {
        let mut nd = Node::open(&p, NodeOpts::default()).await;
        let own = nd.actor_id();
        let base_tasks = alive_tasks();
        let mut out = ConcOut { widths: vec![], acts: vec![], violations: vec![], outcome: 0 };
        let mut rows: Rows = Rows::new();
        let mut counter = 0u64;
        let mut issued = vec![false; reqs.len()];
        // version -> changes of that version as they were right after its commit
        let mut ledger: BTreeMap<u64, Vec<klukai_types::change::Change>> = BTreeMap::new();
        let mut announced: BTreeMap<u64, Vec<ChangeV1>> = BTreeMap::new();
        loop {
            let mut enabled: Vec<CAct> = (0..reqs.len()).filter(|i| !issued[*i]).map(CAct::R).collect();
            let mut parked = PARKED_B.lock().unwrap().clone();
            parked.sort();
            enabled.extend(parked.iter().filter(|v| !RELEASED_B.lock().unwrap().contains(v)).map(|v| CAct::B(*v)));
            if enabled.is_empty() {
                break;
            }
            let k = out.widths.len();
            let choice = if k < prefix.len() { prefix[k] } else { 0 };
            if choice >= enabled.len() {
                machinery_error(&format!("C07 concurrent: schedule prefix diverged at step {k}"));
            }
            out.widths.push(enabled.len());
            let act = enabled[choice].clone();
            out.acts.push(act.clone());
            let tag = format!("{act:?} in {:?}", out.acts);
            let mut bad = |key: &str, d: Value| out.violations.push((format!("C07:{key}"), json!({"at": tag, "d": d})));
            match act {
                CAct::R(i) => {
                    issued[i] = true;
                    let r = reqs[i];
                    let (st, timeout) = stmts(r, i);
                    let expect = model(r, i, &mut rows);
                    let (status, body) = klukai_agent::api::public::api_v1_transactions(
                        axum::Extension(nd.agent.clone()),
                        axum::extract::Query(klukai_agent::api::public::TimeoutParams { timeout }),
                        axum::extract::Json(st),
                    )
                    .await;
                    let body = body.0;
                    match expect {
                        Err(()) => {
                            if status.is_success() {
                                bad("failing-request-acknowledged", json!({"req": format!("{r:?}")}));
                            }
                            if body.version.is_some() {
                                bad("failed-request-consumed-a-version", json!({"version": body.version}));
                            }
                        }
                        Ok(changed) => {
                            if !status.is_success() {
                                bad("valid-request-rejected", json!({"req": format!("{r:?}"), "body": format!("{body:?}")}));
                            } else if changed {
                                counter += 1;
                                if body.version != Some(counter) {
                                    bad("version-not-previous-plus-one", json!({"got": body.version, "want": counter}));
                                    if let Some(v) = body.version {
                                        counter = v;
                                    }
                                }
                            } else if body.version.is_some() {
                                bad("no-op-request-consumed-a-version", json!({"version": body.version}));
                            }
                        }
                    }
                    if let Some(v) = body.version {
                        // its announcement task must reach the gate; remember the version's changes as committed
                        let start = Instant::now();
                        while !PARKED_B.lock().unwrap().contains(&v) {
                            tokio::time::sleep(Duration::from_micros(200)).await;
                            if start.elapsed() > Duration::from_secs(20) {
                                machinery_error("C07 concurrent: announcement task never reached its scheduling point");
                            }
                        }
                        let live = nd.crsql_changes().await;
                        ledger.insert(v, live.into_iter().filter(|c| c.site_id == own.to_bytes() && c.db_version.0 == v).collect());
                    } else {
                        // nothing may have been spawned for it
                        tokio::time::sleep(Duration::from_millis(2)).await;
                    }
                    // the table follows the model after every critical section
                    let got = nd.table_rows("t").await;
                    let want: Vec<Vec<String>> = rows.iter().map(|(id, (a, b))| vec![format!("i:{id}"), format!("t:{a}"), format!("t:{b}")]).collect();
                    if got != want {
                        bad("table-differs-from-model", json!({"got": got, "want": want}));
                    }
                }
                CAct::B(v) => {
                    let live_before = nd.crsql_changes().await;
                    RELEASED_B.lock().unwrap().push(v);
                    let start = Instant::now();
                    loop {
                        let still_parked = PARKED_B.lock().unwrap().len();
                        if !PARKED_B.lock().unwrap().contains(&v)
                            && klukai_types::spawn::PENDING_HANDLES.load(SeqCst) as usize <= still_parked
                            && alive_tasks() <= base_tasks + still_parked
                        {
                            break;
                        }
                        tokio::time::sleep(Duration::from_micros(200)).await;
                        if start.elapsed() > Duration::from_secs(20) {
                            machinery_error("C07 concurrent: announcement task did not finish");
                        }
                    }
                    let got = nd.drain_bcast();
                    for c in &got {
                        let cv = match &c.changeset {
                            Changeset::Full { version, .. } => version.0,
                            _ => 0,
                        };
                        announced.entry(cv).or_default().push(c.clone());
                    }
                    let mut mine: Vec<ChangeV1> = got.iter().filter(|c| matches!(&c.changeset, Changeset::Full { version, .. } if version.0 == v)).cloned().collect();
                    mine.sort_by_key(|c| match &c.changeset {
                        Changeset::Full { seqs, .. } => seqs.start().0,
                        _ => 0,
                    });
                    if mine.len() != got.len() {
                        bad("announcement-task-announced-another-version", json!({"task": v}));
                    }
                    // tiles 0..=last_seq; every change is one the version produced; every change of it
                    // that is still live was announced
                    let committed = ledger.get(&v).cloned().unwrap_or_default();
                    let still_live: Vec<_> = live_before.iter().filter(|c| c.site_id == own.to_bytes() && c.db_version.0 == v).cloned().collect();
                    let mut ranges = vec![];
                    let mut sent = vec![];
                    let mut last = None;
                    for c in &mine {
                        if let Changeset::Full { changes, seqs, last_seq, .. } = &c.changeset {
                            ranges.push((seqs.start().0, seqs.end().0));
                            last = Some(last_seq.0);
                            for ch in changes {
                                if ch.seq < *seqs.start() || ch.seq > *seqs.end() {
                                    bad("change-outside-its-changeset-range", json!({"seq": ch.seq.0}));
                                }
                                sent.push(ch.clone());
                            }
                        }
                    }
                    if mine.is_empty() {
                        bad("acknowledged-version-not-announced", json!({"version": v}));
                    } else {
                        let want_last = committed.iter().map(|c| c.seq.0).max().unwrap_or(0);
                        let mut cur = 0;
                        let mut tiles = true;
                        for (s0, e0) in &ranges {
                            if *s0 != cur || e0 < s0 {
                                tiles = false;
                            }
                            cur = e0 + 1;
                        }
                        if !tiles || Some(cur) != last.map(|l| l + 1) || last != Some(want_last) {
                            bad("announced-ranges-do-not-tile", json!({"ranges": ranges, "last_seq": last, "version_last_seq": want_last}));
                        }
                        for ch in &sent {
                            if !committed.contains(ch) {
                                bad("announced-change-not-of-this-version", json!({"version": v, "change": format!("{ch:?}")}));
                                break;
                            }
                        }
                        for ch in &still_live {
                            if !sent.contains(ch) {
                                bad("live-change-of-the-version-not-announced", json!({"version": v, "change": format!("{ch:?}")}));
                                break;
                            }
                        }
                    }
                }
            }
        }
        GATING.store(false, SeqCst);
        // end state: every acknowledged version announced exactly by its own task, nothing else
        let mut bad = |key: &str, d: Value| out.violations.push((format!("C07:{key}"), json!({"at": "end", "d": d})));
        for v in 1..=counter {
            if !announced.contains_key(&v) {
                bad("acknowledged-version-not-announced", json!({"version": v}));
            }
        }
        for v in announced.keys() {
            if *v == 0 || *v > counter {
                bad("announcement-for-a-version-never-acknowledged", json!({"version": v}));
            }
        }
        let st = nd.sync_state().await;
        let head = st.heads.get(&own).map(|h| h.0).unwrap_or(0);
        if head != counter {
            bad("version-counter-mismatch", json!({"advertised_head": head, "model": counter}));
        }
        if st.need.get(&own).map(|n| !n.is_empty()).unwrap_or(false) || st.partial_need.contains_key(&own) {
            bad("node-lists-a-gap-in-its-own-versions", json!({"need": format!("{:?}", st.need.get(&own))}));
        }
        out.outcome = digest(&(rows.clone(), counter));
        out
    });
    rt.shutdown_timeout(Duration::from_secs(5));
    out
}

/// All multisets of `k` requests from `alpha`.
fn multisets(alpha: &[Req], k: usize) -> Vec<Vec<Req>> {
    fn rec(alpha: &[Req], k: usize, from: usize, cur: &mut Vec<Req>, out: &mut Vec<Vec<Req>>) {
        if cur.len() == k {
            out.push(cur.clone());
            return;
        }
        for i in from..alpha.len() {
            cur.push(alpha[i]);
            rec(alpha, k, i, cur, out);
            cur.pop();
        }
    }
    let mut out = vec![];
    rec(alpha, k, 0, &mut vec![], &mut out);
    out
}

/// Returns (schedules, actions, request sets fully explored, request sets total, cap).
fn concurrent_part(rep: &Report, tpl: &Template, tier: Tier, deadline: Instant) -> (u64, u64, usize, usize, Option<String>) {
    install_gate();
    let alpha = [Req::Ins1, Req::Upd1, Req::UpdB2, Req::Del1, Req::PkDupAt(2), Req::Upd1Same, Req::Ins12];
    // quick: every pair of requests (deterministic work); thorough: triples too
    let mut sets = multisets(&alpha, 2);
    if tier == Tier::Thorough {
        sets.extend(multisets(&alpha, 3));
    }
    let mut schedules = 0u64;
    let mut actions = 0u64;
    let mut done_sets = 0usize;
    let mut cap = None;
    'sets: for set in &sets {
        let mut stack: Vec<Vec<usize>> = vec![vec![]];
        while let Some(prefix) = stack.pop() {
            if Instant::now() > deadline {
                cap = Some(format!("wall-clock cap after {done_sets} of {} request sets (all orders and interleavings each)", sets.len()));
                break 'sets;
            }
            let out = run_conc(tpl, set, &prefix);
            schedules += 1;
            actions += out.acts.len() as u64;
            if !out.violations.is_empty() {
                let again = run_conc(tpl, set, &prefix);
                let k1: Vec<&String> = out.violations.iter().map(|v| &v.0).collect();
                let k2: Vec<&String> = again.violations.iter().map(|v| &v.0).collect();
                if k1 != k2 {
                    machinery_error(&format!("C07 concurrent: non-deterministic schedule {set:?} {prefix:?}: {k1:?} vs {k2:?}"));
                }
            }
            for (k, d) in &out.violations {
                rep.violation(k, json!({"concurrent": true, "requests": set, "prefix": prefix, "schedule": format!("{:?}", out.acts), "d": d}));
            }
            rep.outcome(out.outcome);
            // a schedule is non-trivial when an announcement ran after a later request's critical section
            let mut seen_r_after = false;
            for (i, a) in out.acts.iter().enumerate() {
                if let CAct::B(_) = a {
                    if out.acts[..i].iter().rev().take_while(|x| matches!(x, CAct::R(_))).count() >= 2 {
                        seen_r_after = true;
                    }
                }
            }
            if seen_r_after {
                rep.nontrivial(digest(&format!("conc{set:?}{:?}", out.acts)));
            }
            if schedules % 211 == 7 {
                rep.sample(json!({"concurrent": true, "requests": set, "schedule": format!("{:?}", out.acts)}));
            }
            for pos in prefix.len()..out.widths.len() {
                for alt in 1..out.widths[pos] {
                    let mut p2: Vec<usize> = (0..pos).map(|k| if k < prefix.len() { prefix[k] } else { 0 }).collect();
                    p2.push(alt);
                    stack.push(p2);
                }
            }
        }
        done_sets += 1;
    }
    (schedules, actions, done_sets, sets.len(), cap)
}

fn main() {
    let cli = parse_cli();
    let rep = Report::new("C07", cli.tier, cli.seed);
    sweep_stale_scratch();
    let tpl = Template::build(0, SCHEMA);
    if let Some(p) = &cli.replay {
        let r = load_replay(p);
        if r["concurrent"] == true {
            install_gate();
            let set: Vec<Req> = serde_json::from_value(r["requests"].clone()).unwrap();
            let prefix: Vec<usize> = serde_json::from_value(r["prefix"].clone()).unwrap();
            let out = run_conc(&tpl, &set, &prefix);
            println!("schedule: {:?}", out.acts);
            for (k, d) in &out.violations {
                println!("reproduced {k}: {d}");
            }
            std::process::exit(if out.violations.is_empty() { 0 } else { 1 });
        }
        let seq: Vec<Req> = serde_json::from_value(r["seq"].clone()).unwrap();
        let res = run_seq(&tpl, &seq);
        for (k, d) in &res.violations {
            println!("reproduced {k}: {d}");
        }
        std::process::exit(if res.violations.is_empty() { 0 } else { 1 });
    }
    let alphabet = vec![
        Req::Ins1,
        Req::Ins12,
        Req::Upd1,
        Req::Upd1Same,
        Req::UpdB2,
        Req::Del1,
        Req::Del9,
        Req::SyntaxAt(1),
        Req::SyntaxAt(2),
        Req::SyntaxAt(3),
        Req::PkDupAt(1),
        Req::PkDupAt(2),
        Req::PkDupAt(3),
        Req::ParamCountAt2,
        Req::NotNullAt2,
        Req::InsExisting1Then7,
        Req::Empty,
    ];
    let maxlen = cli.tier.pick(2, 3);
    let mut seqs: Vec<Vec<Req>> = vec![];
    let mut cur: Vec<Vec<Req>> = vec![vec![]];
    for _ in 0..maxlen {
        let mut next = vec![];
        for s in &cur {
            for a in &alphabet {
                let mut t = s.clone();
                t.push(*a);
                next.push(t);
            }
        }
        seqs.extend(next.iter().cloned());
        cur = next;
    }
    // large transactions around the 8 KiB chunk boundary (~56 rows per chunk with these values)
    let mut larges: Vec<u32> = vec![0, 1];
    let window = cli.tier.pick(vec![48u32..=64], vec![40..=70, 100..=130]);
    for w in window {
        larges.extend(w);
    }
    larges.push(cli.tier.pick(400, 3000));
    for n in &larges {
        seqs.push(vec![Req::Large(*n)]);
        seqs.push(vec![Req::Ins1, Req::Large(*n), Req::Upd1]);
    }
    seqs.push(vec![Req::Large(60), Req::Large(30)]); // second one fails on existing keys
    // the special cases run first (a wall-clock cap then cuts the longest alphabet sequences, not these)
    let mut special: Vec<Vec<Req>> = vec![
        vec![Req::Timeout],
        vec![Req::Ins1, Req::Timeout, Req::Upd1],
        vec![Req::TimeoutThenIns],
        vec![Req::Ins1, Req::TimeoutThenIns, Req::Upd1],
    ];
    let nlarge = larges.len() * 2 + 1;
    let tail: Vec<Vec<Req>> = seqs.split_off(seqs.len() - nlarge);
    special.extend(tail);
    special.extend(seqs);
    let seqs = special;

    let deadline = Instant::now() + Duration::from_secs(cli.tier.pick(200, 900));
    let mut execs = 0u64;
    let mut steps = 0u64;
    let mut capped = None;
    for seq in &seqs {
        if Instant::now() > deadline {
            capped = Some(format!("wall-clock cap after {execs} of {} sequences (timeout and chunk-boundary cases, then the alphabet sequences shortest first)", seqs.len()));
            break;
        }
        let res = run_seq(&tpl, seq);
        execs += 1;
        steps += seq.len() as u64;
        if !res.violations.is_empty() {
            let again = run_seq(&tpl, seq);
            let k1: Vec<&String> = res.violations.iter().map(|v| &v.0).collect();
            let k2: Vec<&String> = again.violations.iter().map(|v| &v.0).collect();
            if k1 != k2 {
                machinery_error(&format!("non-deterministic sequence {seq:?}: {k1:?} vs {k2:?}"));
            }
        }
        for (k, d) in res.violations {
            rep.violation(&k, json!({"seq": seq, "d": d}));
        }
        rep.outcome(res.outcome);
        if res.nontrivial {
            rep.nontrivial(digest(&format!("{seq:?}")));
        }
        if execs % 67 == 3 {
            rep.sample(json!({"seq": seq}));
        }
    }
    // the sequential part's verdict must not be lost to anything that happens in the concurrent part
    if rep.violation_count() > 0 {
        rep.set("states", execs);
        rep.set("transitions", steps);
        rep.set("concurrent", json!({"skipped": "the sequential part reported a violation"}));
        rep.set("exhaustive", false);
        rep.finish();
    }
    let (cs, ca, csets, csets_total, ccap) = concurrent_part(&rep, &tpl, cli.tier, Instant::now() + Duration::from_secs(cli.tier.pick(200, 900)));
    rep.set("concurrent", json!({"schedules": cs, "actions": ca, "request_sets_fully_explored": csets, "request_sets": csets_total, "cap": ccap,
        "what": "multisets of 2 and 3 requests over {Ins1, Upd1, UpdB2, Del1, PkDupAt(2), Upd1Same, Ins12}: every order of their critical sections x every placement of each version's announcement task after its commit (gate at the start of broadcast_changes)"}));
    if ccap.is_some() {
        capped = capped.or(ccap.clone());
    }
    rep.set("states", execs + cs);
    rep.set("transitions", steps + ca);
    rep.set("evaluations", execs + cs);
    rep.set("traces_validated_against_impl", execs + cs);
    rep.set("announcements_split_into_several_chunks", MULTI_CHUNK.load(std::sync::atomic::Ordering::Relaxed));
    rep.set("exhaustive", capped.is_none());
    if let Some(c) = capped {
        rep.set("cap_hit", c);
    }
    rep.set("bounds", json!({"alphabet": alphabet.len(), "sequence_len_max": maxlen, "large_row_counts": larges.len(), "timeout_cases": 4}));
    rep.assume("concurrent requests: a request's critical section (write connection + booked write lock, one block_in_place) is atomic with respect to other requests - that exclusion is C20's check; what is explored here is every order of the critical sections and every interleaving of the post-commit announcement tasks with later requests");
    rep.require_nontrivial(20, "a sequence is non-trivial when it contains at least one failing request and at least one acknowledged version");
    rep.finish();
}

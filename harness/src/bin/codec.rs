//! E5 `codec` (C09): exhaustive bounded input enumeration of the wire decoders.
//!  * round trip: a grammar of protocol values generated exhaustively to a size bound;
//!    pack_columns vs unpack_columns vs the extension's crsql_pack_columns (byte equality)
//!  * hostile bytes: every byte string up to length L, and the mutation neighbourhoods of the
//!    seed frames (every single-byte substitution, every truncation, length-field attacks)
//! Decoding runs in child processes (an allocation failure aborts); a counting allocator measures
//! the peak allocation of every single decode.

use klukai_types::actor::{ActorId, ClusterId};
use klukai_types::api::{ColumnName, SqliteValue, TableName};
use klukai_types::base::{CrsqlDbVersion, CrsqlSeq};
use klukai_types::broadcast::{
    BiPayload, BiPayloadV1, BroadcastV1, ChangeV1, Changeset, Timestamp, UniPayload, UniPayloadV1,
};
use klukai_types::change::Change;
use klukai_types::pubsub::{pack_columns, unpack_columns};
use klukai_types::sync::{
    SyncMessage, SyncMessageV1, SyncNeedV1, SyncRejectionV1, SyncStateV1, SyncTraceContextV1,
};
use serde_json::{Value, json};
use speedy::{Readable, Writable};
use std::alloc::{GlobalAlloc, Layout, System};
use std::collections::BTreeMap;
use std::io::{Read, Write};
use std::sync::atomic::{AtomicUsize, Ordering};
use vh::vcore::*;

// ------------------------------------------------------------------------------------------
// counting allocator
// ------------------------------------------------------------------------------------------

struct Counting;
static CUR: AtomicUsize = AtomicUsize::new(0);
static PEAK: AtomicUsize = AtomicUsize::new(0);
/// largest single request seen since reset
static BIGGEST: AtomicUsize = AtomicUsize::new(0);
/// requests above this are refused (returns null => the process aborts, like a real OOM would)
const REFUSE_ABOVE: usize = 1 << 31;

unsafe impl GlobalAlloc for Counting {
    unsafe fn alloc(&self, l: Layout) -> *mut u8 {
        BIGGEST.fetch_max(l.size(), Ordering::Relaxed);
        if l.size() > REFUSE_ABOVE {
            return std::ptr::null_mut();
        }
        let p = unsafe { System.alloc(l) };
        if !p.is_null() {
            let c = CUR.fetch_add(l.size(), Ordering::Relaxed) + l.size();
            PEAK.fetch_max(c, Ordering::Relaxed);
        }
        p
    }
    unsafe fn dealloc(&self, p: *mut u8, l: Layout) {
        CUR.fetch_sub(l.size(), Ordering::Relaxed);
        unsafe { System.dealloc(p, l) }
    }
    unsafe fn realloc(&self, p: *mut u8, l: Layout, new: usize) -> *mut u8 {
        BIGGEST.fetch_max(new, Ordering::Relaxed);
        if new > REFUSE_ABOVE {
            return std::ptr::null_mut();
        }
        let q = unsafe { System.realloc(p, l, new) };
        if !q.is_null() {
            if new > l.size() {
                let c = CUR.fetch_add(new - l.size(), Ordering::Relaxed) + new - l.size();
                PEAK.fetch_max(c, Ordering::Relaxed);
            } else {
                CUR.fetch_sub(l.size() - new, Ordering::Relaxed);
            }
        }
        q
    }
}

#[global_allocator]
static A: Counting = Counting;

// ------------------------------------------------------------------------------------------
// decode sites
// ------------------------------------------------------------------------------------------

const SITES: [&str; 4] = ["UniPayload", "BiPayload", "SyncMessage", "unpack_columns"];

#[derive(Debug, Clone, PartialEq)]
enum Verdict {
    Ok,
    Err,
    Panic(String),
    InvalidUtf8,
    Reencode(String),
    Alloc(usize),
}

fn utf8_ok_changeset(c: &Changeset) -> bool {
    c.changes().iter().all(|ch| {
        std::str::from_utf8(ch.table.0.as_bytes()).is_ok()
            && std::str::from_utf8(ch.cid.0.as_bytes()).is_ok()
            && match &ch.val {
                SqliteValue::Text(t) => std::str::from_utf8(t.as_bytes()).is_ok(),
                _ => true,
            }
    })
}

fn decode_once(site: usize, input: &[u8]) -> Verdict {
    let r = std::panic::catch_unwind(|| -> Verdict {
        match site {
            0 => match UniPayload::read_from_buffer(input) {
                Ok(p) => {
                    let UniPayload::V1 { data: UniPayloadV1::Broadcast(BroadcastV1::Change(c)), .. } = &p;
                    if !utf8_ok_changeset(&c.changeset) {
                        return Verdict::InvalidUtf8;
                    }
                    match p.write_to_vec() {
                        Ok(_) => Verdict::Ok,
                        Err(e) => Verdict::Reencode(e.to_string()),
                    }
                }
                Err(_) => Verdict::Err,
            },
            1 => match BiPayload::read_from_buffer(input) {
                Ok(p) => match p.write_to_vec() {
                    Ok(_) => Verdict::Ok,
                    Err(e) => Verdict::Reencode(e.to_string()),
                },
                Err(_) => Verdict::Err,
            },
            2 => match SyncMessage::from_slice(input) {
                Ok(m) => {
                    if let SyncMessage::V1(SyncMessageV1::Changeset(c)) = &m {
                        if !utf8_ok_changeset(&c.changeset) {
                            return Verdict::InvalidUtf8;
                        }
                    }
                    match m.write_to_vec() {
                        Ok(_) => Verdict::Ok,
                        Err(e) => Verdict::Reencode(e.to_string()),
                    }
                }
                Err(_) => Verdict::Err,
            },
            _ => match unpack_columns(input) {
                Ok(cols) => {
                    for c in &cols {
                        if let rusqlite::types::ValueRef::Text(t) = c.0 {
                            // packed keys carry raw bytes; text must be valid when used as text
                            let _ = t;
                        }
                    }
                    Verdict::Ok
                }
                Err(_) => Verdict::Err,
            },
        }
    });
    match r {
        Ok(v) => v,
        Err(e) => {
            let msg = if let Some(s) = e.downcast_ref::<&str>() {
                s.to_string()
            } else if let Some(s) = e.downcast_ref::<String>() {
                s.clone()
            } else {
                "panic".into()
            };
            Verdict::Panic(msg)
        }
    }
}

/// decode with allocation measurement
fn judged(site: usize, input: &[u8]) -> Verdict {
    let base = CUR.load(Ordering::Relaxed);
    PEAK.store(base, Ordering::Relaxed);
    BIGGEST.store(0, Ordering::Relaxed);
    let v = decode_once(site, input);
    let peak = PEAK.load(Ordering::Relaxed).saturating_sub(base);
    let biggest = BIGGEST.load(Ordering::Relaxed);
    // "never allocates memory unrelated to the input size": generous linear bound
    let bound = 64 * 1024 + 256 * input.len();
    if peak > bound || biggest > bound {
        return Verdict::Alloc(peak.max(biggest));
    }
    v
}

fn norm(msg: &str) -> String {
    let s: String = msg.chars().filter(|c| !c.is_ascii_digit()).take(60).collect();
    s.replace(' ', "-").replace(':', "").replace('`', "")
}

// ------------------------------------------------------------------------------------------
// seeds (grammar of protocol values, exhaustive to a small size bound)
// ------------------------------------------------------------------------------------------

fn value_pool(big: bool) -> Vec<SqliteValue> {
    let mut v = vec![
        SqliteValue::Null,
        SqliteValue::Integer(0),
        SqliteValue::Integer(1),
        SqliteValue::Integer(-1),
        SqliteValue::Integer(i64::MIN),
        SqliteValue::Integer(i64::MAX),
        SqliteValue::Integer(255),
        SqliteValue::Integer(256),
        SqliteValue::Integer(0x0100_0000_0000),
        SqliteValue::Real(klukai_types::api::Real(0.0)),
        SqliteValue::Real(klukai_types::api::Real(-0.0)),
        SqliteValue::Real(klukai_types::api::Real(f64::NAN)),
        SqliteValue::Real(klukai_types::api::Real(f64::INFINITY)),
        SqliteValue::Real(klukai_types::api::Real(f64::NEG_INFINITY)),
        SqliteValue::Real(klukai_types::api::Real(1.5)),
        SqliteValue::Text("".into()),
        SqliteValue::Text("é".into()),
        SqliteValue::Text("x".repeat(300).into()),
        SqliteValue::Blob(vec![].into()),
        SqliteValue::Blob(vec![7u8].into()),
    ];
    if big {
        v.push(SqliteValue::Blob(vec![0xABu8; 70_000].into()));
        v.push(SqliteValue::Text("y".repeat(70_000).into()));
    }
    v
}

fn actor(n: u8) -> ActorId {
    ActorId::from_bytes([n; 16])
}

fn mk_change(val: SqliteValue, seq: u64) -> Change {
    Change {
        table: TableName("t".into()),
        pk: vec![1, 9, 1],
        cid: ColumnName("a".into()),
        val,
        col_version: 1,
        db_version: CrsqlDbVersion(3),
        seq: CrsqlSeq(seq),
        site_id: [5; 16],
        cl: 1,
    }
}

fn changesets(big: bool) -> Vec<Changeset> {
    let ts = Timestamp::from(0x1234_5678_9abc_def0u64);
    let mut out = vec![
        Changeset::Empty { versions: CrsqlDbVersion(1)..=CrsqlDbVersion(1), ts: None },
        Changeset::Empty { versions: CrsqlDbVersion(2)..=CrsqlDbVersion(9), ts: Some(ts) },
        Changeset::EmptySet { versions: vec![], ts },
        Changeset::EmptySet { versions: vec![CrsqlDbVersion(1)..=CrsqlDbVersion(2)], ts },
        Changeset::EmptySet { versions: vec![CrsqlDbVersion(1)..=CrsqlDbVersion(2), CrsqlDbVersion(5)..=CrsqlDbVersion(5)], ts },
        Changeset::Full { version: CrsqlDbVersion(3), changes: vec![], seqs: CrsqlSeq(0)..=CrsqlSeq(0), last_seq: CrsqlSeq(0), ts },
    ];
    for v in value_pool(big) {
        out.push(Changeset::Full { version: CrsqlDbVersion(3), changes: vec![mk_change(v.clone(), 0)], seqs: CrsqlSeq(0)..=CrsqlSeq(0), last_seq: CrsqlSeq(4), ts });
    }
    let p = value_pool(false);
    out.push(Changeset::Full {
        version: CrsqlDbVersion(u64::MAX),
        changes: vec![mk_change(p[1].clone(), 0), mk_change(p[16].clone(), 1)],
        seqs: CrsqlSeq(0)..=CrsqlSeq(1),
        last_seq: CrsqlSeq(1),
        ts,
    });
    out
}

fn sync_states() -> Vec<SyncStateV1> {
    let mut out = vec![SyncStateV1::default()];
    let mut s = SyncStateV1 { actor_id: actor(1), ..Default::default() };
    s.heads.insert(actor(2), CrsqlDbVersion(7));
    out.push(s.clone());
    s.need.insert(actor(2), vec![CrsqlDbVersion(1)..=CrsqlDbVersion(2), CrsqlDbVersion(4)..=CrsqlDbVersion(4)]);
    out.push(s.clone());
    let mut pn = std::collections::HashMap::new();
    pn.insert(CrsqlDbVersion(6), vec![CrsqlSeq(0)..=CrsqlSeq(1), CrsqlSeq(5)..=CrsqlSeq(9)]);
    s.partial_need.insert(actor(2), pn);
    s.last_cleared_ts = Some(Timestamp::from(99u64));
    out.push(s);
    out
}

/// (site, frame bytes, description)
fn seeds(big: bool) -> Vec<(usize, Vec<u8>, String)> {
    let mut out = vec![];
    for cs in changesets(big) {
        let desc = format!("{:?}", cs).chars().take(80).collect::<String>();
        for cluster in [ClusterId(0), ClusterId(513)] {
            let u = UniPayload::V1 {
                data: UniPayloadV1::Broadcast(BroadcastV1::Change(ChangeV1 { actor_id: actor(3), changeset: cs.clone() })),
                cluster_id: cluster,
            };
            let bytes = u.write_to_vec().unwrap();
            // frame without the trailing cluster id (defaults to 0 on eof)
            if cluster.0 == 0 {
                out.push((0, bytes[..bytes.len() - 2].to_vec(), format!("uni/no-cluster/{desc}")));
            }
            out.push((0, bytes, format!("uni/{desc}")));
        }
        let m = SyncMessage::V1(SyncMessageV1::Changeset(ChangeV1 { actor_id: actor(3), changeset: cs.clone() }));
        out.push((2, m.write_to_vec().unwrap(), format!("sync/changeset/{desc}")));
    }
    for tc in [
        SyncTraceContextV1::default(),
        SyncTraceContextV1 { traceparent: Some("00-abc-def-01".into()), tracestate: None },
        SyncTraceContextV1 { traceparent: Some("é".into()), tracestate: Some("k=v".into()) },
    ] {
        let b = BiPayload::V1 { data: BiPayloadV1::SyncStart { actor_id: actor(4), trace_ctx: tc.clone() }, cluster_id: ClusterId(7) };
        out.push((1, b.write_to_vec().unwrap(), format!("bi/{tc:?}")));
    }
    for st in sync_states() {
        out.push((2, SyncMessage::V1(SyncMessageV1::State(st.clone())).write_to_vec().unwrap(), format!("sync/state/{} heads", st.heads.len())));
    }
    out.push((2, SyncMessage::V1(SyncMessageV1::Clock(Timestamp::from(5u64))).write_to_vec().unwrap(), "sync/clock".into()));
    for r in [SyncRejectionV1::MaxConcurrencyReached, SyncRejectionV1::DifferentCluster] {
        out.push((2, SyncMessage::V1(SyncMessageV1::Rejection(r.clone())).write_to_vec().unwrap(), format!("sync/rejection/{r:?}")));
    }
    let needs = vec![
        SyncNeedV1::Full { versions: CrsqlDbVersion(1)..=CrsqlDbVersion(10) },
        SyncNeedV1::Partial { version: CrsqlDbVersion(2), seqs: vec![] },
        SyncNeedV1::Partial { version: CrsqlDbVersion(2), seqs: vec![CrsqlSeq(0)..=CrsqlSeq(3), CrsqlSeq(7)..=CrsqlSeq(7)] },
        SyncNeedV1::Empty { ts: None },
        SyncNeedV1::Empty { ts: Some(Timestamp::from(1u64)) },
    ];
    out.push((2, SyncMessage::V1(SyncMessageV1::Request(vec![])).write_to_vec().unwrap(), "sync/request/[]".into()));
    for n in &needs {
        out.push((2, SyncMessage::V1(SyncMessageV1::Request(vec![(actor(2), vec![n.clone()])])).write_to_vec().unwrap(), format!("sync/request/{n:?}")));
    }
    out.push((2, SyncMessage::V1(SyncMessageV1::Request(vec![(actor(2), needs.clone()), (actor(5), vec![])])).write_to_vec().unwrap(), "sync/request/all".into()));
    // packed keys
    let pool = value_pool(false);
    for i in [1usize, 4, 9, 11, 15, 16, 17, 18, 19] {
        out.push((3, pack_columns(&[pool[i].clone()]).unwrap(), format!("pk/{:?}", pool[i]).chars().take(60).collect()));
    }
    out.push((3, pack_columns(&[pool[1].clone(), pool[16].clone(), pool[19].clone()]).unwrap(), "pk/3cols".into()));
    out
}

// ------------------------------------------------------------------------------------------
// child: enumerates a job by itself, reports on stdout; progress cell for post-mortem
// ------------------------------------------------------------------------------------------

struct Cell {
    ptr: *mut u8,
}
const CELL_SIZE: usize = 1 << 20;
impl Cell {
    fn open(path: &str) -> Cell {
        let f = std::fs::OpenOptions::new().read(true).write(true).create(true).truncate(false).open(path).unwrap();
        f.set_len(CELL_SIZE as u64).unwrap();
        use std::os::fd::AsRawFd;
        let ptr = unsafe { libc::mmap(std::ptr::null_mut(), CELL_SIZE, libc::PROT_READ | libc::PROT_WRITE, libc::MAP_SHARED, f.as_raw_fd(), 0) };
        assert!(ptr != libc::MAP_FAILED);
        Cell { ptr: ptr as *mut u8 }
    }
    /// layout: [u64 index][u32 len][bytes]
    fn set(&self, index: u64, input: &[u8]) {
        unsafe {
            std::ptr::copy_nonoverlapping(index.to_le_bytes().as_ptr(), self.ptr, 8);
            let n = input.len().min(CELL_SIZE - 12) as u32;
            std::ptr::copy_nonoverlapping(n.to_le_bytes().as_ptr(), self.ptr.add(8), 4);
            std::ptr::copy_nonoverlapping(input.as_ptr(), self.ptr.add(12), n as usize);
        }
    }
    fn get(&self) -> (u64, Vec<u8>) {
        unsafe {
            let mut i = [0u8; 8];
            std::ptr::copy_nonoverlapping(self.ptr, i.as_mut_ptr(), 8);
            let mut l = [0u8; 4];
            std::ptr::copy_nonoverlapping(self.ptr.add(8), l.as_mut_ptr(), 4);
            let n = u32::from_le_bytes(l) as usize;
            let mut v = vec![0u8; n];
            std::ptr::copy_nonoverlapping(self.ptr.add(12), v.as_mut_ptr(), n);
            (u64::from_le_bytes(i), v)
        }
    }
}

/// A job is a deterministic, indexable list of inputs for one site.
#[derive(Clone, Debug, serde::Serialize, serde::Deserialize)]
enum Job {
    /// all byte strings of length `len` whose first byte is `first`
    Strings { site: usize, len: usize, first: u8 },
    /// mutation neighbourhood of seed number `seed`
    Mutants { seed: usize, big: bool, pairs: bool },
}

const SPECIALS: [u64; 8] = [0, 1, 0x7fff_ffff, 0x8000_0000, 0xffff_ffff, 1 << 63, u64::MAX, 0x0010_0000];

fn job_inputs(job: &Job, mut f: impl FnMut(u64, usize, &[u8]) -> bool) {
    match job {
        Job::Strings { site, len, first } => {
            if *len == 0 {
                f(0, *site, &[]);
                return;
            }
            let mut buf = vec![0u8; *len];
            buf[0] = *first;
            let total: u64 = 256u64.pow((*len - 1) as u32);
            for i in 0..total {
                let mut x = i;
                for k in 1..*len {
                    buf[k] = (x & 0xff) as u8;
                    x >>= 8;
                }
                if !f(i, *site, &buf) {
                    return;
                }
            }
        }
        Job::Mutants { seed, big, pairs } => {
            let (site, frame, _) = seeds(*big).swap_remove(*seed);
            let mut idx = 0u64;
            let mut emit = |b: &[u8], f: &mut dyn FnMut(u64, usize, &[u8]) -> bool| -> bool {
                let r = f(idx, site, b);
                idx += 1;
                r
            };
            // the seed itself, every truncation
            for cut in 0..=frame.len() {
                if !emit(&frame[..cut], &mut f) {
                    return;
                }
            }
            // large frames: restrict byte-level mutation to the first and last 96 bytes
            let positions: Vec<usize> = if frame.len() > 256 {
                (0..96).chain(frame.len() - 96..frame.len()).collect()
            } else {
                (0..frame.len()).collect()
            };
            let mut m = frame.clone();
            for &p in &positions {
                let orig = m[p];
                for b in 0..=255u8 {
                    if b != orig {
                        m[p] = b;
                        if !emit(&m, &mut f) {
                            return;
                        }
                    }
                }
                m[p] = orig;
            }
            // 1/4/8-byte windows overwritten with special values, both endiannesses
            for &p in &positions {
                for w in [1usize, 4, 8] {
                    if p + w > frame.len() {
                        continue;
                    }
                    for s in SPECIALS {
                        for be in [false, true] {
                            let mut m2 = frame.clone();
                            let bytes = if be { s.to_be_bytes() } else { s.to_le_bytes() };
                            let src: &[u8] = if be { &bytes[8 - w..] } else { &bytes[..w] };
                            m2[p..p + w].copy_from_slice(src);
                            if !emit(&m2, &mut f) {
                                return;
                            }
                        }
                    }
                }
            }
            if *pairs && frame.len() <= 96 {
                for p in 0..frame.len() {
                    for q in p + 1..frame.len() {
                        for a in [0x00u8, 0x7f, 0x80, 0xff] {
                            for b in [0x00u8, 0x7f, 0x80, 0xff] {
                                let mut m2 = frame.clone();
                                m2[p] = a;
                                m2[q] = b;
                                if !emit(&m2, &mut f) {
                                    return;
                                }
                            }
                        }
                    }
                }
            }
        }
    }
}

fn child_main(args: &[String]) -> ! {
    // args: <cell path> <resume index> <job json>
    std::panic::set_hook(Box::new(|_| {}));
    unsafe {
        let lim = libc::rlimit { rlim_cur: 6 << 30, rlim_max: 6 << 30 };
        libc::setrlimit(libc::RLIMIT_AS, &lim);
        let nocore = libc::rlimit { rlim_cur: 0, rlim_max: 0 };
        libc::setrlimit(libc::RLIMIT_CORE, &nocore);
    }
    let cell = Cell::open(&args[0]);
    let resume: u64 = args[1].parse().unwrap();
    let job: Job = serde_json::from_str(&args[2]).unwrap();
    let mut n = 0u64;
    let mut oks = 0u64;
    let mut errs = 0u64;
    let mut bad: BTreeMap<String, (u64, Vec<u8>)> = BTreeMap::new();
    job_inputs(&job, |i, site, input| {
        if i < resume {
            return true;
        }
        cell.set(i, input);
        n += 1;
        match judged(site, input) {
            Verdict::Ok => oks += 1,
            Verdict::Err => errs += 1,
            Verdict::Panic(m) => {
                let e = bad.entry(format!("{}:panic:{}", SITES[site], norm(&m))).or_insert((0, input.to_vec()));
                e.0 += 1;
            }
            Verdict::InvalidUtf8 => {
                let e = bad.entry(format!("{}:yields-invalid-utf8-text", SITES[site])).or_insert((0, input.to_vec()));
                e.0 += 1;
            }
            Verdict::Reencode(m) => {
                let e = bad.entry(format!("{}:decoded-value-does-not-reencode:{}", SITES[site], norm(&m))).or_insert((0, input.to_vec()));
                e.0 += 1;
            }
            Verdict::Alloc(_) => {
                let e = bad.entry(format!("{}:allocation-unrelated-to-input-size", SITES[site])).or_insert((0, input.to_vec()));
                e.0 += 1;
            }
        }
        true
    });
    cell.set(u64::MAX, &[]);
    let out = json!({"n": n, "ok": oks, "err": errs, "bad": bad.iter().map(|(k, v)| json!({"key": k, "count": v.0, "input": hex(&v.1)})).collect::<Vec<_>>()});
    println!("{out}");
    std::process::exit(0);
}

fn hex(b: &[u8]) -> String {
    b.iter().map(|x| format!("{x:02x}")).collect()
}
fn unhex(s: &str) -> Vec<u8> {
    (0..s.len() / 2).map(|i| u8::from_str_radix(&s[2 * i..2 * i + 2], 16).unwrap()).collect()
}

// ------------------------------------------------------------------------------------------
// parent
// ------------------------------------------------------------------------------------------

struct JobResult {
    n: u64,
    ok: u64,
    err: u64,
    bad: Vec<(String, u64, Vec<u8>)>,
}

fn run_job(job: &Job, slot: usize) -> JobResult {
    let exe = std::env::current_exe().unwrap();
    let cell_path = format!("/dev/shm/vh-codec-{}-{}", std::process::id(), slot);
    let cell = Cell::open(&cell_path);
    cell.set(0, &[]);
    let mut res = JobResult { n: 0, ok: 0, err: 0, bad: vec![] };
    let mut resume = 0u64;
    let mut aborts = 0;
    loop {
        let out = std::process::Command::new(&exe)
            .args(["--child", &cell_path, &resume.to_string(), &serde_json::to_string(job).unwrap()])
            .output()
            .expect("spawn child");
        if out.status.success() {
            let v: Value = serde_json::from_slice(&out.stdout).unwrap_or_else(|e| machinery_error(&format!("child output: {e}")));
            res.n += v["n"].as_u64().unwrap();
            res.ok += v["ok"].as_u64().unwrap();
            res.err += v["err"].as_u64().unwrap();
            for b in v["bad"].as_array().unwrap() {
                res.bad.push((b["key"].as_str().unwrap().to_string(), b["count"].as_u64().unwrap(), unhex(b["input"].as_str().unwrap())));
            }
            break;
        }
        // the child died: the cell holds the input that killed it
        let (idx, input) = cell.get();
        if idx == u64::MAX {
            machinery_error("child failed after finishing its job");
        }
        let site = match job {
            Job::Strings { site, .. } => *site,
            Job::Mutants { seed, big, .. } => seeds(*big)[*seed].0,
        };
        use std::os::unix::process::ExitStatusExt;
        let how = match out.status.signal() {
            Some(s) => format!("signal-{s}"),
            None => format!("exit-{}", out.status.code().unwrap_or(-1)),
        };
        res.bad.push((format!("{}:process-abort:{how}", SITES[site]), 1, input));
        res.n += 1; // the killing input; inputs before it in this run are not counted (lower bound)
        resume = idx + 1;
        aborts += 1;
        if aborts > 20_000 {
            machinery_error("too many child aborts in one job");
        }
    }
    let _ = std::fs::remove_file(&cell_path);
    res
}

fn main() {
    let args: Vec<String> = std::env::args().collect();
    if args.len() > 1 && args[1] == "--child" {
        child_main(&args[2..]);
    }
    let cli = parse_cli();
    let rep = Report::new("C09", cli.tier, cli.seed);
    if !(args.len() > 1 && args[1] == "--one") {
        quiet_panics();
    }

    if let Some(p) = &cli.replay {
        let r = load_replay(p);
        let site = r["site"].as_u64().unwrap() as usize;
        let input = unhex(r["input_hex"].as_str().unwrap());
        let job = Job::Strings { site, len: 0, first: 0 };
        let _ = job;
        // run in a child so an abort is observable
        let exe = std::env::current_exe().unwrap();
        let st = std::process::Command::new(exe).args(["--one", &site.to_string(), &hex(&input)]).status().unwrap();
        std::process::exit(if st.success() { 0 } else { 1 });
    }
    if args.len() > 1 && args[1] == "--one" {
        let site: usize = args[2].parse().unwrap();
        let v = judged(site, &unhex(&args[3]));
        println!("{v:?}");
        std::process::exit(if matches!(v, Verdict::Ok | Verdict::Err) { 0 } else { 1 });
    }

    // ---------------- round trip (in-process)
    let mut rt = 0u64;
    let big = true;
    for (site, frame, desc) in seeds(big) {
        rt += 1;
        let ok = std::panic::catch_unwind(|| match site {
            0 => UniPayload::read_from_buffer(&frame).map(|p| p.write_to_vec().unwrap() == frame || desc.contains("no-cluster")).unwrap_or(false),
            1 => BiPayload::read_from_buffer(&frame).map(|p| p.write_to_vec().unwrap() == frame).unwrap_or(false),
            2 => SyncMessage::from_slice(&frame)
                .map(|m| {
                    // HashMap order may differ: compare decoded values, and sizes of encodings
                    let again = m.write_to_vec().unwrap();
                    again.len() == frame.len() && SyncMessage::from_slice(&again).map(|m2| format!("{m2:?}").len() == format!("{m:?}").len()).unwrap_or(false)
                })
                .unwrap_or(false),
            _ => unpack_columns(&frame).map(|c| !c.is_empty()).unwrap_or(false),
        })
        .unwrap_or(false);
        if !ok {
            rep.violation(&format!("{}:roundtrip-mismatch", SITES[site]), json!({"site": site, "input_hex": hex(&frame[..frame.len().min(4096)]), "seed": desc}));
        }
    }
    // the no-cluster frames must decode to cluster 0
    // value-level equality for sync messages
    for st in sync_states() {
        let m = SyncMessage::V1(SyncMessageV1::State(st));
        if SyncMessage::from_slice(&m.write_to_vec().unwrap()).ok().as_ref() != Some(&m) {
            rep.violation("SyncMessage:roundtrip-mismatch", json!({"msg": format!("{m:?}")}));
        }
        rt += 1;
    }
    for cs in changesets(true) {
        let m = SyncMessage::V1(SyncMessageV1::Changeset(ChangeV1 { actor_id: actor(3), changeset: cs }));
        let back = SyncMessage::from_slice(&m.write_to_vec().unwrap()).ok();
        let same = match (&back, &m) {
            (Some(b), m) => b == m || format!("{b:?}") == format!("{m:?}"), // NaN != NaN
            _ => false,
        };
        if !same {
            rep.violation("SyncMessage:roundtrip-mismatch", json!({"msg": format!("{m:?}").chars().take(300).collect::<String>()}));
        }
        rt += 1;
    }
    // pack_columns: round trip + byte equality with the extension
    let packs = pack_differential(&rep, cli.tier);
    rt += packs;

    // ---------------- hostile bytes (children)
    let mut jobs: Vec<Job> = vec![];
    let maxlen = cli.tier.pick(2usize, 3usize);
    for site in 0..4 {
        jobs.push(Job::Strings { site, len: 0, first: 0 });
        for len in 1..=maxlen {
            for first in 0..=255u8 {
                jobs.push(Job::Strings { site, len, first });
            }
        }
    }
    let nseeds = seeds(false).len();
    let nseeds_big = seeds(true).len();
    for s in 0..nseeds {
        jobs.push(Job::Mutants { seed: s, big: false, pairs: cli.tier == Tier::Thorough });
    }
    if cli.tier == Tier::Thorough {
        for s in nseeds..nseeds_big {
            jobs.push(Job::Mutants { seed: s, big: true, pairs: false });
        }
    }
    // big seeds appended at the end of seeds(true): indexes differ; recompute explicitly
    use rayon::prelude::*;
    let results: Vec<(Job, JobResult)> = jobs.par_iter().enumerate().map(|(i, j)| (j.clone(), run_job(j, i))).collect();
    let mut n = 0u64;
    let mut oks = 0u64;
    let mut errs = 0u64;
    let mut per_site = [0u64; 4];
    for (job, r) in &results {
        n += r.n;
        oks += r.ok;
        errs += r.err;
        let site = match job {
            Job::Strings { site, .. } => *site,
            Job::Mutants { seed, big, .. } => seeds(*big)[*seed].0,
        };
        per_site[site] += r.n;
        for (k, c, input) in &r.bad {
            for _ in 0..(*c).min(3) {
                rep.violation(k, json!({"site": site, "input_hex": hex(&input[..input.len().min(4096)]), "job": format!("{job:?}")}));
            }
        }
    }
    rep.set("states", nseeds_big as u64 + rt);
    rep.set("transitions", n + rt);
    rep.set("evaluations", n + rt);
    rep.set("traces_validated_against_impl", n + rt);
    rep.set("hostile_inputs", json!({"total": n, "decoded_ok": oks, "decoded_err": errs, "per_site": {"UniPayload": per_site[0], "BiPayload": per_site[1], "SyncMessage": per_site[2], "unpack_columns": per_site[3]}}));
    rep.set("roundtrip_values", rt);
    rep.set("bounds", json!({"all_strings_up_to_len": maxlen, "seed_frames": if cli.tier == Tier::Thorough { nseeds_big } else { nseeds },
        "mutations": "every truncation; every single-byte substitution (first/last 96 bytes of frames > 256 B); 1/4/8-byte windows x 8 special values x both endiannesses; thorough: pairs of positions x {00,7f,80,ff}^2 on frames <= 96 B"}));
    rep.set("exhaustive", true);
    rep.nontrivial_distinct_by_construction(oks);
    rep.sample(json!({"seed": seeds(false)[3].2, "hex": hex(&seeds(false)[3].1)}));
    rep.sample(json!({"job": format!("{:?}", jobs[300])}));
    rep.assume("allocation bound per decode: 64 KiB + 256 x input length (peak and largest single request), measured by a counting global allocator in the decoding process");
    rep.assume("the 100 MiB frame space is covered only for all strings up to the stated length and the stated mutation neighbourhoods of the seed frames");
    rep.require_nontrivial(100, "a hostile input is non-trivial when it decodes to a value (Ok) and is then checked for valid UTF-8 and re-encoding; inputs distinct by construction");
    rep.finish();
}

/// pack_columns(x) == crsql_pack_columns(x) byte for byte; unpack(pack(x)) == x
fn pack_differential(rep: &Report, tier: Tier) -> u64 {
    use klukai_types::sqlite::CrConn;
    let conn = CrConn::init(rusqlite::Connection::open_in_memory().unwrap()).unwrap();
    let pool = value_pool(tier == Tier::Thorough);
    let mut tuples: Vec<Vec<SqliteValue>> = vec![];
    for a in &pool {
        tuples.push(vec![a.clone()]);
        for b in &pool {
            tuples.push(vec![a.clone(), b.clone()]);
            if tier == Tier::Thorough {
                for c in pool.iter().step_by(3) {
                    tuples.push(vec![a.clone(), b.clone(), c.clone()]);
                }
            }
        }
    }
    tuples.push((0..255).map(|i| SqliteValue::Integer(i)).collect());
    tuples.push((0..100).map(|i| SqliteValue::Integer(1 << (i % 63))).collect());
    let mut n = 0;
    for t in tuples {
        n += 1;
        let packed = match std::panic::catch_unwind(|| pack_columns(&t)) {
            Ok(Ok(p)) => p,
            Ok(Err(e)) => {
                rep.violation("pack_columns:error", json!({"cols": format!("{t:?}").chars().take(200).collect::<String>(), "err": e.to_string()}));
                continue;
            }
            Err(_) => {
                rep.violation("pack_columns:panic", json!({"cols": format!("{t:?}").chars().take(200).collect::<String>()}));
                continue;
            }
        };
        // round trip
        let back = std::panic::catch_unwind(|| unpack_columns(&packed).map(|v| v.iter().map(|x| format!("{:?}", x.0)).collect::<Vec<_>>()));
        let want: Vec<String> = t
            .iter()
            .map(|v| match v {
                SqliteValue::Null => "Null".to_string(),
                SqliteValue::Integer(i) => format!("Integer({i})"),
                SqliteValue::Real(r) => format!("Real({:?})", r.0),
                SqliteValue::Text(s) => format!("Text({:?})", s.as_bytes()),
                SqliteValue::Blob(b) => format!("Blob({:?})", b.as_slice()),
            })
            .collect();
        match back {
            Ok(Ok(got)) => {
                if got != want {
                    rep.violation("pack_columns:roundtrip-mismatch", json!({"cols": format!("{t:?}").chars().take(200).collect::<String>(), "got": format!("{got:?}").chars().take(200).collect::<String>()}));
                }
            }
            _ => rep.violation("unpack_columns:fails-on-packed-value", json!({"cols": format!("{t:?}").chars().take(200).collect::<String>()})),
        }
        // differential with the extension (up to 100 args is SQLite's default limit region; keep <= 100)
        let has_nan = t.iter().any(|v| matches!(v, SqliteValue::Real(r) if r.0.is_nan()));
        if t.len() <= 100 && !has_nan {
            let sql = format!("SELECT crsql_pack_columns({})", vec!["?"; t.len()].join(","));
            let ext: Result<Vec<u8>, _> = conn.query_row(&sql, rusqlite::params_from_iter(t.iter()), |r| r.get(0));
            match ext {
                Ok(e) => {
                    if e != packed {
                        rep.violation("pack_columns:bytes-differ-from-crsql_pack_columns", json!({"cols": format!("{t:?}").chars().take(200).collect::<String>(), "ours": hex(&packed[..packed.len().min(64)]), "ext": hex(&e[..e.len().min(64)])}));
                    }
                }
                Err(e) => {
                    rep.violation("pack_columns:extension-query-failed", json!({"err": e.to_string()}));
                }
            }
        }
    }
    n
}

//! Event-based reference model of what a node "holds" per origin actor, and the C02 oracle
//! (advertised sync state is an exact, durable summary). The model is fed with what the harness
//! delivered, never with what the subject stored.

use crate::vnode::{BookedView, Node};
use klukai_types::actor::ActorId;
use klukai_types::agent::BookedVersions;
use klukai_types::broadcast::{ChangeV1, Changeset};
use klukai_types::sync::SyncStateV1;
use serde_json::{Value, json};
use std::collections::{BTreeMap, BTreeSet};

#[derive(Debug, Clone, Default, PartialEq, Eq, Hash)]
pub struct ActorModel {
    /// versions for which a complete delivery, a covered-and-applied partial, or an Empty was
    /// processed by a step that committed
    pub held: BTreeSet<u64>,
    /// seqs delivered for a version that is not held yet
    pub recv: BTreeMap<u64, BTreeSet<u64>>,
    /// last_seq declared by the first chunk received for a version
    pub last_seq: BTreeMap<u64, u64>,
}

impl ActorModel {
    pub fn covered(&self, v: u64) -> bool {
        match (self.recv.get(&v), self.last_seq.get(&v)) {
            (Some(r), Some(l)) => (0..=*l).all(|s| r.contains(&s)),
            _ => false,
        }
    }
    pub fn missing(&self, v: u64) -> BTreeSet<u64> {
        let l = *self.last_seq.get(&v).unwrap_or(&0);
        let r = self.recv.get(&v).cloned().unwrap_or_default();
        (0..=l).filter(|s| !r.contains(s)).collect()
    }
    pub fn max_touched(&self) -> u64 {
        self.held
            .iter()
            .chain(self.recv.keys())
            .copied()
            .max()
            .unwrap_or(0)
    }
}

#[derive(Debug, Clone, Default, PartialEq, Eq, Hash)]
pub struct NodeModel {
    pub actors: BTreeMap<ActorId, ActorModel>,
}

impl NodeModel {
    /// One committed `process_multiple_changes` batch. Returns versions whose coverage just
    /// completed (an apply trigger is expected for each).
    pub fn on_batch(&mut self, own: ActorId, batch: &[ChangeV1]) -> Vec<(ActorId, u64)> {
        let mut completed = vec![];
        for c in batch {
            if c.actor_id == own {
                continue;
            }
            let m = self.actors.entry(c.actor_id).or_default();
            match &c.changeset {
                Changeset::Empty { versions, .. } => {
                    for v in versions.start().0..=versions.end().0 {
                        m.held.insert(v);
                    }
                }
                Changeset::EmptySet { .. } => {}
                Changeset::Full {
                    version,
                    seqs,
                    last_seq,
                    ..
                } => {
                    let v = version.0;
                    if seqs.end() < seqs.start() {
                        continue;
                    }
                    if seqs.start().0 == 0 && seqs.end() == last_seq {
                        m.held.insert(v);
                        completed.retain(|x| *x != (c.actor_id, v));
                        continue;
                    }
                    let was = m.covered(v);
                    m.last_seq.entry(v).or_insert(last_seq.0);
                    let r = m.recv.entry(v).or_default();
                    for s in seqs.start().0..=seqs.end().0 {
                        r.insert(s);
                    }
                    if !was && m.covered(v) {
                        completed.push((c.actor_id, v));
                    }
                }
            }
        }
        completed
    }

    /// `process_fully_buffered_changes(actor, v)` ran and committed.
    pub fn on_apply(&mut self, actor: ActorId, v: u64) {
        let m = self.actors.entry(actor).or_default();
        if m.covered(v) {
            m.held.insert(v);
        }
    }

    /// A local transaction of the node itself got version `v`.
    pub fn on_local(&mut self, own: ActorId, v: u64) {
        self.actors.entry(own).or_default().held.insert(v);
    }
}

fn ranges_to_set(r: &[std::ops::RangeInclusive<klukai_types::base::CrsqlDbVersion>]) -> BTreeSet<u64> {
    r.iter().flat_map(|r| r.start().0..=r.end().0).collect()
}

/// C02 oracle on one node. Returns (key, details) per violation.
///
/// Two-sided, and only as strict as the statement: a node may ignore a delivery (it then simply
/// does not hold it), so "delivered" alone never obliges it to advertise "held". What is judged:
///  * advertised held  => a complete / empty delivery or a covered partial was processed
///  * advertised partial with missing M => not observably applied, and M = 0..=last \ delivered
///  * advertised needed => not observably applied and nothing of it stored
///  * persisted gap / seq rows describe the same sets as memory; a reload gives the same view
/// "observably applied" = the node's crsql_changes has rows stamped with that (site, version).
pub async fn check_sync_state(node: &Node, model: &NodeModel, tag: &str) -> Vec<(String, Value)> {
    let mut node_pending = vec![];
    check_sync_state_with(node, model, tag, &mut node_pending).await
}

pub async fn check_sync_state_with(
    node: &Node,
    model: &NodeModel,
    tag: &str,
    pending_clear: &mut Vec<(ActorId, std::ops::RangeInclusive<klukai_types::base::CrsqlDbVersion>)>,
) -> Vec<(String, Value)> {
    let mut out = vec![];
    let st: SyncStateV1 = node.sync_state().await;
    let views = node.booked_view().await;
    let own = node.actor_id();
    let mut push = |key: &str, d: Value| out.push((format!("C02:{key}"), json!({"at": tag, "d": d})));
    let clear_pending = |a: ActorId, v: u64| {
        pending_clear.iter().any(|(pa, r)| *pa == a && r.start().0 <= v && v <= r.end().0)
    };

    let mut actors: BTreeSet<ActorId> = model.actors.keys().copied().collect();
    actors.extend(st.heads.keys().copied());
    for a in actors {
        let empty = ActorModel::default();
        let m = model.actors.get(&a).unwrap_or(&empty);
        let head = st.heads.get(&a).map(|h| h.0).unwrap_or(0);
        let need: BTreeSet<u64> = st.need.get(&a).map(|r| ranges_to_set(r)).unwrap_or_default();
        let partial: BTreeMap<u64, BTreeSet<u64>> = st
            .partial_need
            .get(&a)
            .map(|p| {
                p.iter()
                    .map(|(v, rs)| (v.0, rs.iter().flat_map(|r| r.start().0..=r.end().0).collect()))
                    .collect()
            })
            .unwrap_or_default();
        let view = views.get(&a);
        let (gap_rows, seq_rows, buffered, applied, reload) = node
            .read(move |c| {
                let gaps: Vec<(u64, u64)> = c
                    .prepare("SELECT start, end FROM __corro_bookkeeping_gaps WHERE actor_id = ? ORDER BY start")
                    .unwrap()
                    .query_map([a], |r| Ok((r.get(0)?, r.get(1)?)))
                    .unwrap()
                    .collect::<rusqlite::Result<_>>()
                    .unwrap();
                let seqs: Vec<(u64, u64, u64, u64)> = c
                    .prepare("SELECT db_version, start_seq, end_seq, last_seq FROM __corro_seq_bookkeeping WHERE site_id = ? ORDER BY 1,2")
                    .unwrap()
                    .query_map([a], |r| Ok((r.get(0)?, r.get(1)?, r.get(2)?, r.get(3)?)))
                    .unwrap()
                    .collect::<rusqlite::Result<_>>()
                    .unwrap();
                let buffered: BTreeSet<u64> = c
                    .prepare("SELECT DISTINCT db_version FROM __corro_buffered_changes WHERE site_id = ?")
                    .unwrap()
                    .query_map([a], |r| r.get(0))
                    .unwrap()
                    .collect::<rusqlite::Result<_>>()
                    .unwrap();
                let applied: BTreeSet<u64> = c
                    .prepare("SELECT DISTINCT db_version FROM crsql_changes WHERE site_id = ?")
                    .unwrap()
                    .query_map([a], |r| r.get(0))
                    .unwrap()
                    .collect::<rusqlite::Result<_>>()
                    .unwrap();
                let reload = BookedVersions::from_conn(c, a).map(|b| BookedView::of(&b)).map_err(|e| e.to_string());
                (gaps, seqs, buffered, applied, reload)
            })
            .await;
        // --- the three classes split 1..=head exactly
        for v in 1..=head {
            let in_need = need.contains(&v);
            let in_partial = partial.contains_key(&v);
            let is_applied = applied.contains(&v);
            let stored = buffered.contains(&v) || seq_rows.iter().any(|r| r.0 == v);
            if in_need && in_partial {
                push("version-in-need-and-partial", json!({"actor": a.to_string(), "version": v}));
            } else if in_need {
                if is_applied {
                    push("applied-version-listed-as-needed", json!({"actor": a.to_string(), "version": v}));
                } else if stored {
                    push("buffered-version-listed-as-needed", json!({"actor": a.to_string(), "version": v}));
                }
            } else if in_partial {
                if is_applied || a == own {
                    push(
                        "applied-version-listed-as-partial",
                        json!({"actor": a.to_string(), "version": v, "advertised_missing": partial[&v]}),
                    );
                } else if !m.recv.contains_key(&v) {
                    push("unreceived-version-listed-as-partial", json!({"actor": a.to_string(), "version": v}));
                } else {
                    let missing = m.missing(v);
                    if partial[&v] != missing {
                        push(
                            "partial-missing-ranges-wrong",
                            json!({"actor": a.to_string(), "version": v, "truly_missing": missing, "advertised_missing": partial[&v]}),
                        );
                    }
                }
            } else {
                // advertised as held
                if !(m.held.contains(&v) || m.covered(v) || a == own && is_applied) {
                    if m.recv.contains_key(&v) {
                        push(
                            "partial-version-advertised-as-held",
                            json!({"actor": a.to_string(), "version": v, "truly_missing": m.missing(v)}),
                        );
                    } else {
                        push("unreceived-version-advertised-as-held", json!({"actor": a.to_string(), "version": v}));
                    }
                }
            }
        }
        for v in need.iter().chain(partial.keys()) {
            if *v < 1 || *v > head {
                push("listed-version-outside-head", json!({"actor": a.to_string(), "version": v, "head": head}));
            }
        }
        // --- persisted records describe the same sets as the in-memory view
        if let Some(view) = view {
            let mut prev_end: Option<u64> = None;
            for (s, e) in &gap_rows {
                if s > e || *s < 1 || *e > view.max.unwrap_or(0) {
                    push("gap-row-outside-head", json!({"actor": a.to_string(), "row": [s, e], "head": view.max}));
                }
                if let Some(pe) = prev_end {
                    if *s <= pe + 1 {
                        push("gap-rows-overlap-or-adjacent", json!({"actor": a.to_string(), "rows": gap_rows}));
                    }
                }
                prev_end = Some(*e);
            }
            let row_set: BTreeSet<u64> = gap_rows.iter().flat_map(|(s, e)| *s..=*e).collect();
            let mem_set: BTreeSet<u64> = view.needed.iter().flat_map(|(s, e)| *s..=*e).collect();
            if row_set != mem_set {
                push("gap-rows-differ-from-memory", json!({"actor": a.to_string(), "rows": gap_rows, "memory": view.needed}));
            }
            // versions advertised as partial: seq rows == in-memory seqs
            for (v, seqs, last) in &view.partials {
                if !partial.contains_key(v) {
                    continue;
                }
                let mem: BTreeSet<u64> = seqs.iter().flat_map(|(s, e)| *s..=*e).collect();
                let disk: BTreeSet<u64> = seq_rows.iter().filter(|r| r.0 == *v).flat_map(|r| r.1..=r.2).collect();
                if mem != disk {
                    push("seq-rows-differ-from-memory", json!({"actor": a.to_string(), "version": v, "memory": mem, "disk": disk, "last_seq": last}));
                }
            }
            // stale partial rows of versions no longer partial must be on their way out
            let awaiting_apply = |v: u64| -> bool {
                // fully buffered in memory and not applied yet: the apply step will consume the rows
                !applied.contains(&v)
                    && view.partials.iter().any(|p| {
                        let mem: BTreeSet<u64> = p.1.iter().flat_map(|(s, e)| *s..=*e).collect();
                        p.0 == v && (0..=p.2).all(|q| mem.contains(&q))
                    })
            };
            let stale: BTreeSet<u64> = seq_rows
                .iter()
                .map(|r| r.0)
                .chain(buffered.iter().copied())
                .filter(|v| !partial.contains_key(v) && !awaiting_apply(*v))
                .collect();
            for v in stale {
                if !clear_pending(a, v) {
                    push("stale-buffered-rows-never-cleared", json!({"actor": a.to_string(), "version": v}));
                }
            }
            // reload equality (through what a peer can observe: needed + incomplete partials),
            // ignoring versions whose stale rows are waiting for a scheduled clear
            match reload {
                Err(e) => push("reload-failed", json!({"actor": a.to_string(), "err": e})),
                Ok(rv) => {
                    if rv.needed != view.needed {
                        push("reload-needed-differs", json!({"actor": a.to_string(), "live": view.needed, "reloaded": rv.needed}));
                    }
                    let inc = |bv: &BookedView| -> Vec<(u64, BTreeSet<u64>)> {
                        bv.partials
                            .iter()
                            .map(|(v, s, l)| (*v, s.iter().flat_map(|(a, b)| *a..=*b).collect::<BTreeSet<u64>>(), *l))
                            .filter(|(_, s, l)| !(0..=*l).all(|q| s.contains(&q)))
                            .filter(|(v, _, _)| !clear_pending(a, *v))
                            .map(|(v, s, _)| (v, s))
                            .collect()
                    };
                    if inc(&rv) != inc(view) {
                        push("reload-partials-differ", json!({"actor": a.to_string(), "live": inc(view), "reloaded": inc(&rv)}));
                    }
                    if rv.max.unwrap_or(0) > view.max.unwrap_or(0) {
                        push("reload-head-higher-than-live", json!({"actor": a.to_string(), "live": view.max, "reloaded": rv.max}));
                    }
                }
            }
        } else if !gap_rows.is_empty() || !seq_rows.is_empty() {
            push("rows-for-actor-unknown-in-memory", json!({"actor": a.to_string(), "gaps": gap_rows}));
        }
    }
    out
}

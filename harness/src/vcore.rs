//! Shared explorer plumbing: CLI, evidence, replay files, known findings, exit codes.
//!
//! Exit codes: 0 = property held on everything explored (KNOWN-FINDING lines allowed),
//! 1 = at least one unlisted violation (VIOLATION line printed), 2 = machinery error.

use serde::{Deserialize, Serialize};
use serde_json::{Value, json};
use std::collections::{BTreeMap, BTreeSet};
use std::hash::{Hash, Hasher};
use std::path::PathBuf;
use std::sync::Mutex;
use std::time::Instant;

pub fn verif_root() -> String {
    std::env::var("VERIF_ROOT").unwrap_or_else(|_| "/verif".to_string())
}

#[derive(Clone, Copy, PartialEq, Eq, Debug)]
pub enum Tier {
    Quick,
    Thorough,
}

impl Tier {
    pub fn as_str(&self) -> &'static str {
        match self {
            Tier::Quick => "quick",
            Tier::Thorough => "thorough",
        }
    }
    pub fn pick<T>(&self, quick: T, thorough: T) -> T {
        match self {
            Tier::Quick => quick,
            Tier::Thorough => thorough,
        }
    }
}

pub struct Cli {
    pub tier: Tier,
    pub replay: Option<PathBuf>,
    pub seed: i64,
    pub props: Vec<String>,
    pub extra: Vec<String>,
}

pub fn parse_cli() -> Cli {
    // VH_TRACE=<env-filter> prints the subject's tracing output (debugging the harness only)
    if let Ok(f) = std::env::var("VH_TRACE") {
        let _ = tracing_subscriber::fmt().with_env_filter(f).with_writer(std::io::stderr).try_init();
    }
    let mut tier = match std::env::var("VERIF_TIER").ok().as_deref() {
        Some("thorough") => Tier::Thorough,
        _ => Tier::Quick,
    };
    let mut replay = None;
    let mut props = vec![];
    let mut extra = vec![];
    let mut args = std::env::args().skip(1);
    while let Some(a) = args.next() {
        match a.as_str() {
            "--tier" => {
                tier = match args.next().as_deref() {
                    Some("thorough") => Tier::Thorough,
                    Some("quick") => Tier::Quick,
                    other => machinery_error(&format!("bad --tier {other:?}")),
                }
            }
            "--replay" => replay = args.next().map(PathBuf::from),
            "--prop" => props.extend(args.next()),
            other => extra.push(other.to_string()),
        }
    }
    let seed = std::env::var("VERIF_SEED")
        .ok()
        .and_then(|s| s.parse().ok())
        .unwrap_or(0);
    Cli {
        tier,
        replay,
        seed,
        props,
        extra,
    }
}

pub fn machinery_error(msg: &str) -> ! {
    eprintln!("MACHINERY-ERROR: {msg}");
    std::process::exit(2);
}

/// Deterministic 64-bit digest (SipHash with fixed keys).
pub fn digest<T: Hash>(t: &T) -> u64 {
    #[allow(deprecated)]
    let mut h = std::hash::SipHasher::new_with_keys(0x7665726966, 0x636f72726f);
    t.hash(&mut h);
    h.finish()
}

pub fn digest_str(s: &str) -> String {
    format!("{:016x}", digest(&s))
}

#[derive(Debug, Clone, Serialize, Deserialize)]
pub struct KnownFinding {
    pub property: String,
    pub key: String,
    pub what: String,
    pub status: String, // "known" | "fixed"
    #[serde(default)]
    pub commit: Option<String>,
}

pub fn load_known_findings() -> Vec<KnownFinding> {
    let p = format!("{}/known_findings.json", verif_root());
    match std::fs::read_to_string(&p) {
        Ok(s) => match serde_json::from_str::<Value>(&s) {
            Ok(v) => serde_json::from_value(v["findings"].clone())
                .unwrap_or_else(|e| machinery_error(&format!("known_findings.json: {e}"))),
            Err(e) => machinery_error(&format!("known_findings.json: {e}")),
        },
        Err(_) => vec![],
    }
}

/// One property's report for one run. Collects violations (deduplicated by key),
/// matches them against known findings, writes evidence + replay files.
pub struct Report {
    pub property: String,
    pub tier: Tier,
    pub seed: i64,
    start: Instant,
    known: Vec<KnownFinding>,
    inner: Mutex<ReportInner>,
}

#[derive(Default)]
struct ReportInner {
    // key -> (count, first replay json)
    violations: BTreeMap<String, (u64, Value)>,
    coverage: BTreeMap<String, Value>,
    samples: Vec<Value>,
    assumptions: Vec<String>,
    nontrivial: BTreeSet<u64>,
    nontrivial_by_construction: u64,
    outcomes: BTreeSet<u64>,
}

impl Report {
    pub fn new(property: &str, tier: Tier, seed: i64) -> Self {
        Report {
            property: property.to_string(),
            tier,
            seed,
            start: Instant::now(),
            known: load_known_findings(),
            inner: Mutex::new(ReportInner::default()),
        }
    }

    /// Record a violation. `key` names *what fails* (call site / input class / minimal pattern);
    /// `replay` is a self-contained JSON value that `--replay` can re-execute.
    pub fn violation(&self, key: &str, replay: Value) {
        let mut g = self.inner.lock().unwrap();
        let e = g
            .violations
            .entry(key.to_string())
            .or_insert_with(|| (0, replay));
        e.0 += 1;
    }

    pub fn has_violation(&self, key: &str) -> bool {
        self.inner.lock().unwrap().violations.contains_key(key)
    }

    pub fn violation_count(&self) -> usize {
        self.inner.lock().unwrap().violations.len()
    }

    pub fn set(&self, k: &str, v: impl Into<Value>) {
        self.inner
            .lock()
            .unwrap()
            .coverage
            .insert(k.to_string(), v.into());
    }

    pub fn add(&self, k: &str, n: u64) {
        let mut g = self.inner.lock().unwrap();
        let e = g.coverage.entry(k.to_string()).or_insert(json!(0u64));
        *e = json!(e.as_u64().unwrap_or(0) + n);
    }

    pub fn get(&self, k: &str) -> u64 {
        self.inner
            .lock()
            .unwrap()
            .coverage
            .get(k)
            .and_then(|v| v.as_u64())
            .unwrap_or(0)
    }

    pub fn sample(&self, v: Value) {
        let mut g = self.inner.lock().unwrap();
        if g.samples.len() < 8 {
            g.samples.push(v);
        }
    }

    pub fn assume(&self, s: &str) {
        let mut g = self.inner.lock().unwrap();
        if !g.assumptions.iter().any(|a| a == s) {
            g.assumptions.push(s.to_string());
        }
    }

    /// Count a distinct non-trivial case (by digest).
    pub fn nontrivial(&self, d: u64) {
        self.inner.lock().unwrap().nontrivial.insert(d);
    }

    /// Count a distinct observed outcome (by digest).
    pub fn outcome(&self, d: u64) {
        self.inner.lock().unwrap().outcomes.insert(d);
    }

    /// Count `n` non-trivial cases that are distinct by construction of the enumeration.
    pub fn nontrivial_distinct_by_construction(&self, n: u64) {
        self.inner.lock().unwrap().nontrivial_by_construction += n;
    }

    pub fn nontrivial_count(&self) -> usize {
        let g = self.inner.lock().unwrap();
        g.nontrivial.len() + g.nontrivial_by_construction as usize
    }

    /// Vacuity guard: a run whose non-trivial count is below `floor` is a machinery error.
    pub fn require_nontrivial(&self, floor: usize, rule: &str) {
        let n = self.nontrivial_count();
        self.set("rule", rule);
        if n < floor {
            self.finish_with(Some(format!(
                "vacuity floor missed: {n} distinct non-trivial cases < {floor} ({rule})"
            )));
        }
    }

    pub fn finish(&self) -> ! {
        self.finish_with(None)
    }

    fn finish_with(&self, machinery: Option<String>) -> ! {
        let g = self.inner.lock().unwrap();
        let wall = self.start.elapsed().as_secs_f64();
        let mut unlisted = vec![];
        let mut listed = vec![];
        for (key, (count, replay)) in g.violations.iter() {
            let k = self
                .known
                .iter()
                .find(|k| k.property == self.property && k.key == *key && k.status == "known");
            match k {
                Some(k) => listed.push((key.clone(), *count, k.what.clone())),
                None => unlisted.push((key.clone(), *count, replay.clone())),
            }
        }
        let mut cov = serde_json::Map::new();
        for (k, v) in g.coverage.iter() {
            cov.insert(k.clone(), v.clone());
        }
        cov.entry("states").or_insert(json!(0));
        cov.entry("transitions").or_insert(json!(0));
        cov.entry("traces_validated_against_impl").or_insert(json!(0));
        cov.insert("samples".into(), Value::Array(g.samples.clone()));
        cov.insert(
            "distinct_nontrivial".into(),
            json!(g.nontrivial.len() as u64 + g.nontrivial_by_construction),
        );
        cov.insert("distinct_outcomes".into(), json!(g.outcomes.len()));
        if !cov.contains_key("evaluations") {
            let t = cov["transitions"].clone();
            cov.insert("evaluations".into(), t);
        }
        cov.insert(
            "known_findings_hit".into(),
            json!(listed.iter().map(|l| l.0.clone()).collect::<Vec<_>>()),
        );
        cov.insert(
            "violation_keys".into(),
            json!(
                g.violations
                    .iter()
                    .map(|(k, v)| json!({"key": k, "count": v.0}))
                    .collect::<Vec<_>>()
            ),
        );
        let ev = json!({
            "property_id": self.property,
            "tier": self.tier.as_str(),
            "seed": self.seed,
            "level": "model_checking",
            "coverage": Value::Object(cov),
            "assumptions": g.assumptions,
            "wall_s": wall,
            "violations": unlisted.len(),
            "machinery_error": machinery,
        });
        let dir = format!("{}/evidence", verif_root());
        let _ = std::fs::create_dir_all(&dir);
        let path = format!("{dir}/{}.json", self.property);
        let tmp = format!("{path}.tmp");
        std::fs::write(&tmp, serde_json::to_string_pretty(&ev).unwrap()).unwrap();
        std::fs::rename(&tmp, &path).unwrap();

        println!(
            "[{}] tier={} states={} transitions={} nontrivial={} outcomes={} wall={:.1}s",
            self.property,
            self.tier.as_str(),
            ev["coverage"]["states"],
            ev["coverage"]["transitions"],
            ev["coverage"]["distinct_nontrivial"],
            g.outcomes.len(),
            wall
        );
        for (key, count, what) in &listed {
            println!(
                "KNOWN-FINDING: property={} key={} hits={} {}",
                self.property, key, count, what
            );
        }
        if let Some(m) = machinery {
            eprintln!("MACHINERY-ERROR: {m}");
            std::process::exit(2);
        }
        if unlisted.is_empty() {
            std::process::exit(0);
        }
        let rdir = format!("{}/replays/{}", verif_root(), self.property);
        let _ = std::fs::create_dir_all(&rdir);
        for (key, count, replay) in &unlisted {
            let file = format!("{rdir}/{}.json", digest_str(key));
            let body = json!({"property": self.property, "key": key, "hits": count, "replay": replay});
            std::fs::write(&file, serde_json::to_string_pretty(&body).unwrap()).unwrap();
            println!("VIOLATION property={} replay={} key={}", self.property, file, key);
        }
        std::process::exit(1);
    }
}

/// Load the `replay` payload of a replay file.
pub fn load_replay(path: &PathBuf) -> Value {
    let s = std::fs::read_to_string(path)
        .unwrap_or_else(|e| machinery_error(&format!("cannot read replay {path:?}: {e}")));
    let v: Value =
        serde_json::from_str(&s).unwrap_or_else(|e| machinery_error(&format!("bad replay: {e}")));
    v["replay"].clone()
}

/// Run `f` and turn a panic into Err(message).
pub fn catch<R>(f: impl FnOnce() -> R + std::panic::UnwindSafe) -> Result<R, String> {
    std::panic::catch_unwind(f).map_err(|e| {
        if let Some(s) = e.downcast_ref::<&str>() {
            s.to_string()
        } else if let Some(s) = e.downcast_ref::<String>() {
            s.clone()
        } else {
            "panic".to_string()
        }
    })
}

pub fn quiet_panics() {
    std::panic::set_hook(Box::new(|_| {}));
}
